//go:build verif

package main

import (
	"bytes"
	"compress/zlib"
	"fmt"
	"io"
	"regexp"
	"sort"
	"strconv"
	"strings"

	"verif/internal/gen/pdfw"
)

// A document under fault is its base plus one or two edits. An edit addresses a *part*:
//
//	raw        the bytes of the file as written (PDF, HTML, zipped container)
//	o<r>.<i>   (PDF) the serialized body / stream dictionary of the i-th object of revision r in the
//	           pdfw plan; the file is rebuilt by pdfw.Build, so offsets, /Length, xref stay consistent
//	d<r>.<i>   (PDF) the decoded data of that object's stream (re-encoded with the same filter)
//	m<i>       (ZIP) the uncompressed content of member i; the container is re-zipped validly
//	c<i>       (ZIP) the deflated bytes of member i inside a structurally valid container
//
// op: "" replace [s,e) by repl; "drop" remove the whole part (object / member); "dup" write it twice.
type edit struct {
	part  int
	s, e  int
	repl  []byte
	op    string
	class string // fault class for the descriptor
	val   string // replacement label for the descriptor
	group string // object / member / section the site belongs to (same-group doubles in quick)
}

type part struct {
	name string
	kind string // raw | body | data | member | cdata
	text []byte
	rev  int  // pdf: revision index
	idx  int  // pdf: object index in revision; zip: member index; xs: index into partList()
	obj  int  // pdf: object number
	xs   bool // part of an xsBase: no drop/dup; data parts always get byte substitutions
}

type span struct {
	s, e  int
	kind  string // object | section | header
	group string
	obj   int
	// data sub-span (stream data) if any
	ds, de int
	dkind  string // "text" | "binary" | ""
	role   string // content | cmap | flate | objstm | xref | other
}

// numVals: the four values of the property's quantifier plus 2^20, a number that passes every
// "is it absurd?" clamp of a file format (a worksheet has 2^20 rows) and is still large enough to
// blow the budgets when it is used unchecked as a loop bound or an allocation size.
var numVals = []string{"0", "-1", "2147483648", "9223372036854775807", "1048576"}

var subAlphabet = []byte{0x00, 0xFF, ' ', '\n', '<', '>', '(', ')', '[', '/', '0', '9'}

var (
	reDigits = regexp.MustCompile(`[0-9]+`)
	reRef    = regexp.MustCompile(`([0-9]+) ([0-9]+) R\b`)
)

func isTextual(b []byte) bool {
	for _, c := range b {
		if c >= 0x7F || (c < 0x20 && c != '\n' && c != '\r' && c != '\t') {
			return false
		}
	}
	return true
}

// ---- PDF raw layer ---------------------------------------------------------------------

// pdfSpans cuts the raw file into header, object and xref-section spans using pdfw's token map.
func pdfSpans(b *base) []span {
	type cut struct {
		at   int
		kind string
		obj  int
	}
	var cuts []cut
	for _, t := range b.built.Tokens {
		switch t.Kind {
		case "objhdr":
			cuts = append(cuts, cut{t.Start, "object", t.Obj})
		case "xref-table":
			cuts = append(cuts, cut{t.Start, "section", 0})
		case "xref-stream":
			cuts = append(cuts, cut{t.Start, "section", t.Obj})
		}
	}
	sort.Slice(cuts, func(i, j int) bool { return cuts[i].at < cuts[j].at })
	var out []span
	out = append(out, span{s: 0, e: cuts[0].at, kind: "header", group: "hdr"})
	for i, c := range cuts {
		e := len(b.data)
		if i+1 < len(cuts) {
			e = cuts[i+1].at
		}
		sp := span{s: c.at, e: e, kind: c.kind, obj: c.obj}
		if c.kind == "object" {
			sp.group = fmt.Sprintf("obj%d@%d", c.obj, c.at)
		} else {
			sp.group = fmt.Sprintf("sec@%d", c.at)
		}
		out = append(out, sp)
	}
	// stream data sub-spans
	for _, t := range b.built.Tokens {
		if t.Kind != "stream-data" {
			continue
		}
		for i := range out {
			if t.Start >= out[i].s && t.End <= out[i].e && out[i].kind == "object" {
				out[i].ds, out[i].de = t.Start, t.End
			}
		}
	}
	for i := range out {
		sp := &out[i]
		if sp.kind == "section" {
			// xref stream: locate its data between "stream\n" and "\nendstream"
			seg := b.data[sp.s:sp.e]
			if j := bytes.Index(seg, []byte("stream\n")); j >= 0 && bytes.Contains(seg[:j], []byte("/XRef")) {
				k := bytes.LastIndex(seg, []byte("\nendstream"))
				if k > j {
					sp.ds, sp.de = sp.s+j+7, sp.s+k
					sp.role = "xref"
				}
			}
		}
		if sp.de > sp.ds {
			hdr := string(b.data[sp.s:sp.ds])
			if isTextual(b.data[sp.ds:sp.de]) && !strings.Contains(hdr, "/Filter") {
				sp.dkind = "text"
			} else {
				sp.dkind = "binary"
			}
			switch {
			case sp.role != "":
			case strings.Contains(hdr, "/ObjStm"):
				sp.role = "objstm"
			case strings.Contains(hdr, "/Length1"):
				sp.role = "fontfile"
			case bytes.Contains(b.data[sp.ds:sp.de], []byte("begincmap")):
				sp.role = "cmap"
			case sp.dkind == "text":
				sp.role = "content"
			default:
				sp.role = "flate"
			}
		}
	}
	return out
}

func spanOf(spans []span, off int) *span {
	for i := range spans {
		if off >= spans[i].s && off < spans[i].e {
			return &spans[i]
		}
	}
	return &spans[len(spans)-1]
}

// textRegions of the raw PDF: everything except binary stream data.
func inBinary(spans []span, off int) bool {
	sp := spanOf(spans, off)
	return sp.dkind == "binary" && off >= sp.ds && off < sp.de
}

// pdfTokenBoundaries: offsets where a PDF token starts or ends (outside binary data), plus the
// boundaries of every binary stream.
func tokenBoundaries(text []byte, skip func(int) bool, delims string) []int {
	var out []int
	class := func(c byte) int {
		switch {
		case c == ' ' || c == '\n' || c == '\r' || c == '\t' || c == 0:
			return 0
		case strings.IndexByte(delims, c) >= 0:
			return 2
		}
		return 1
	}
	prev := -1
	for i, c := range text {
		if skip != nil && skip(i) {
			prev = -1
			continue
		}
		k := class(c)
		if k != prev || k == 2 {
			out = append(out, i)
		}
		prev = k
	}
	return out
}

// structuralEdits enumerates fault classes 2 (numeric fields), 3 (references; PDF only) and 5
// (delimiters) on a textual part. base offset `off` is added to every site; skip() excludes
// binary regions; groupOf names the object/member of a site.
func structuralEdits(pi int, text []byte, pdf bool, nobj int, skip func(int) bool, groupOf func(int) string, inStreamData func(int) bool) []edit {
	var out []edit
	add := func(s, e int, repl, class, val string) {
		out = append(out, edit{part: pi, s: s, e: e, repl: []byte(repl), class: class, val: val, group: groupOf(s)})
	}
	// class 2: digit runs
	for _, m := range reDigits.FindAllIndex(text, -1) {
		if skip != nil && skip(m[0]) {
			continue
		}
		for _, v := range numVals {
			if string(text[m[0]:m[1]]) == v {
				continue
			}
			add(m[0], m[1], v, "num", v)
		}
	}
	// class 3: references
	if pdf {
		for _, m := range reRef.FindAllSubmatchIndex(text, -1) {
			if skip != nil && skip(m[0]) {
				continue
			}
			if inStreamData != nil && inStreamData(m[0]) {
				continue
			}
			cur, _ := strconv.Atoi(string(text[m[2]:m[3]]))
			for n := 1; n <= nobj; n++ {
				if n == cur {
					continue
				}
				add(m[2], m[3], strconv.Itoa(n), "ref", strconv.Itoa(n))
			}
		}
	}
	// class 5: delimiters
	i := 0
	for i < len(text) {
		if skip != nil && skip(i) {
			i++
			continue
		}
		c := text[i]
		two := i+1 < len(text) && text[i+1] == c && (c == '<' || c == '>') && pdf
		switch {
		case two:
			d := string(text[i : i+2])
			partner := map[string]string{"<<": ">>", ">>": "<<"}[d]
			add(i, i+2, "", "delim", "del"+d)
			add(i, i+2, d+d, "delim", "dbl"+d)
			add(i, i+2, partner, "delim", "swap"+d)
			add(i, i+2, d[:1], "delim", "half"+d)
			i += 2
			continue
		case pdf && strings.IndexByte("()[]<>", c) >= 0:
			partner := map[byte]byte{'(': ')', ')': '(', '[': ']', ']': '[', '<': '>', '>': '<'}[c]
			add(i, i+1, "", "delim", "del"+string(c))
			add(i, i+1, string([]byte{c, c}), "delim", "dbl"+string(c))
			add(i, i+1, string(partner), "delim", "swap"+string(c))
		case !pdf && strings.IndexByte("<>\"/=&;", c) >= 0:
			partner := map[byte]byte{'<': '>', '>': '<', '"': '\'', '/': '\\', '=': ' ', '&': ';', ';': '&'}[c]
			add(i, i+1, "", "delim", "del"+string(c))
			add(i, i+1, string([]byte{c, c}), "delim", "dbl"+string(c))
			add(i, i+1, string(partner), "delim", "swap"+string(c))
		}
		i++
	}
	return out
}

// nestEdits: class 8, "amplify nesting". No other class can make a structure deeper, and recursion
// depth is what aborts a Go process for good (fatal stack overflow). Every array opener of a PDF part
// is replaced by 4096 openers, every dictionary opener by 2048 x "<< /K "; every start tag of an
// HTML/XHTML part by 3000 copies of itself.
func nestEdits(pi int, text []byte, pdf bool, skip func(int) bool, groupOf func(int) string) []edit {
	var out []edit
	for i := 0; i < len(text); i++ {
		if skip != nil && skip(i) {
			continue
		}
		c := text[i]
		switch {
		case pdf && c == '[':
			out = append(out, edit{part: pi, s: i, e: i + 1, repl: bytes.Repeat([]byte("["), 4096), class: "nest", val: "[x4096", group: groupOf(i)})
		case pdf && c == '<' && i+1 < len(text) && text[i+1] == '<':
			out = append(out, edit{part: pi, s: i, e: i + 2, repl: bytes.Repeat([]byte("<< /K "), 2048), class: "nest", val: "<<x2048", group: groupOf(i)})
			i++
		case !pdf && c == '<' && i+1 < len(text) && (text[i+1] >= 'a' && text[i+1] <= 'z' || text[i+1] >= 'A' && text[i+1] <= 'Z'):
			j := bytes.IndexByte(text[i:], '>')
			if j < 0 || j > 200 || text[i+j-1] == '/' {
				continue
			}
			out = append(out, edit{part: pi, s: i, e: i + j + 1, repl: bytes.Repeat(text[i:i+j+1], 3000), class: "nest", val: "tagx3000", group: groupOf(i)})
		}
	}
	return out
}

var reHex = regexp.MustCompile(`<[0-9A-Fa-f]+>`)

// hexEdits: class 2 for the hex-string operands of CMap operators (codespacerange low/high, bfchar
// src/dst, bfrange lo/hi/dst, cidrange lo/hi): they are numbers. Every operand -> zero of the same
// width, all-F of the same width, FFFFFFFF, 7FFFFFFF, 80000000; two operands next to each other on
// a line are also swapped (lo > hi).
func hexEdits(pi int, text []byte, groupOf func(int) string) []edit {
	var out []edit
	ms := reHex.FindAllIndex(text, -1)
	for k, m := range ms {
		cur := string(text[m[0]+1 : m[1]-1])
		n := len(cur)
		tried := map[string]bool{strings.ToUpper(cur): true}
		for _, v := range []string{strings.Repeat("0", n), strings.Repeat("F", n), "FFFFFFFF", "7FFFFFFF", "80000000"} {
			if tried[v] {
				continue
			}
			tried[v] = true
			out = append(out, edit{part: pi, s: m[0] + 1, e: m[1] - 1, repl: []byte(v), class: "hex", val: v, group: groupOf(m[0])})
		}
		if k+1 < len(ms) && !bytes.ContainsAny(text[m[1]:ms[k+1][0]], "\n\r") {
			nx := ms[k+1]
			repl := append(append(append([]byte(nil), text[nx[0]:nx[1]]...), text[m[1]:nx[0]]...), text[m[0]:m[1]]...)
			out = append(out, edit{part: pi, s: m[0], e: nx[1], repl: repl, class: "hex", val: "swap", group: groupOf(m[0])})
		}
	}
	return out
}

// streamEdits: class 6 on a compressed byte range [s,e) of part pi.
func streamEdits(pi, s, e int, text []byte, group string) []edit {
	if e <= s {
		return nil
	}
	var out []edit
	flip := func(at int, label string) {
		out = append(out, edit{part: pi, s: at, e: at + 1, repl: []byte{text[at] ^ 0xFF}, class: "stream", val: label, group: group})
	}
	flip(s, "flip-first")
	if m := s + (e-s)/2; m != s && m != e-1 {
		flip(m, "flip-mid")
	}
	if e-1 != s {
		flip(e-1, "flip-last")
	}
	out = append(out, edit{part: pi, s: e - 1, e: e, repl: nil, class: "stream", val: "trunc1", group: group})
	out = append(out, edit{part: pi, s: s, e: e, repl: nil, class: "stream", val: "empty", group: group})
	return out
}

// ---- applying edits ------------------------------------------------------------------------

func applySpanEdits(text []byte, eds []edit) []byte {
	// eds: non-overlapping span edits on the same text; applied from the highest offset down
	sort.SliceStable(eds, func(i, j int) bool { return eds[i].s > eds[j].s })
	out := append([]byte(nil), text...)
	for _, ed := range eds {
		s, e := ed.s, ed.e
		if s > len(out) {
			s = len(out)
		}
		if e > len(out) {
			e = len(out)
		}
		n := make([]byte, 0, len(out)+len(ed.repl))
		n = append(n, out[:s]...)
		n = append(n, ed.repl...)
		n = append(n, out[e:]...)
		out = n
	}
	return out
}

func compatible(a, b edit) bool {
	if a.part != b.part {
		return true
	}
	if a.op != "" || b.op != "" {
		return false
	}
	// distinct, non-overlapping sites
	if a.s == b.s && a.e == b.e {
		return false
	}
	return a.e <= b.s || b.e <= a.s
}

func zinflate(b []byte) ([]byte, bool) {
	r, err := zlib.NewReader(bytes.NewReader(b))
	if err != nil {
		return nil, false
	}
	d, err := io.ReadAll(r)
	return d, err == nil
}

// buildPDF rebuilds the file from the plan with object-level edits applied.
func buildPDF(b *base, parts []part, eds []edit) (out []byte, ok bool) {
	defer func() {
		if r := recover(); r != nil {
			out, ok = nil, false
		}
	}()
	if b.xs != nil {
		over := map[int][]byte{}
		seen := map[int]bool{}
		for _, ed := range eds {
			if seen[ed.part] {
				continue
			}
			seen[ed.part] = true
			var same []edit
			for _, e2 := range eds {
				if e2.part == ed.part && e2.op == "" {
					same = append(same, e2)
				}
			}
			over[parts[ed.part].idx] = applySpanEdits(parts[ed.part].text, same)
		}
		data, _, _ := b.xs.build(over)
		return data, true
	}
	f := b.file
	revs := make([]pdfw.Revision, len(f.Revs))
	copy(revs, f.Revs)
	f.Revs = revs
	touched := map[int]bool{}
	for _, ed := range eds {
		touched[parts[ed.part].rev] = true
	}
	for r := range revs {
		if touched[r] {
			objs := make([]pdfw.Obj, len(revs[r].Objs))
			copy(objs, revs[r].Objs)
			revs[r].Objs = objs
		}
	}
	byPart := map[int][]edit{}
	var order []int
	for _, ed := range eds {
		if _, ok := byPart[ed.part]; !ok {
			order = append(order, ed.part)
		}
		byPart[ed.part] = append(byPart[ed.part], ed)
	}
	type structOp struct {
		rev, idx int
		op       string
	}
	var sops []structOp
	for _, pi := range order {
		p := parts[pi]
		o := revs[p.rev].Objs[p.idx]
		var spans []edit
		for _, ed := range byPart[pi] {
			if ed.op != "" {
				sops = append(sops, structOp{p.rev, p.idx, ed.op})
			} else {
				spans = append(spans, ed)
			}
		}
		if len(spans) == 0 {
			continue
		}
		nt := applySpanEdits(p.text, spans)
		switch p.kind {
		case "body":
			if o.Stream != nil {
				st := *o.Stream
				st.Dict = string(nt)
				o.Stream = &st
			} else {
				o.Body = string(nt)
			}
		case "data":
			st := *o.Stream
			if strings.Contains(st.Dict, "/FlateDecode") {
				st.Data = pdfw.Zlib(nt)
			} else {
				st.Data = nt
			}
			o.Stream = &st
		}
		revs[p.rev].Objs[p.idx] = o
	}
	// structural ops last, highest index first so indices stay valid
	sort.Slice(sops, func(i, j int) bool { return sops[i].idx > sops[j].idx })
	for _, so := range sops {
		objs := revs[so.rev].Objs
		switch so.op {
		case "drop":
			objs = append(append([]pdfw.Obj(nil), objs[:so.idx]...), objs[so.idx+1:]...)
		case "dup":
			objs = append(append([]pdfw.Obj(nil), objs...), objs[so.idx])
		}
		revs[so.rev].Objs = objs
	}
	return pdfw.Build(f).Bytes, true
}

// pdfParts lists the object-level parts of the plan.
func pdfParts(b *base) []part {
	var ps []part
	if b.xs != nil {
		_, texts, _ := b.xs.build(nil)
		for i, xp := range b.xs.partList() {
			kind := "body"
			if xp.kind == xpData || xp.kind == xpXRefData {
				kind = "data"
			}
			ps = append(ps, part{name: xp.name(b.xs), kind: kind, text: texts[i], idx: i, xs: true})
		}
		return ps
	}
	for r, rev := range b.file.Revs {
		for i, o := range rev.Objs {
			if o.Stream != nil {
				ps = append(ps, part{name: fmt.Sprintf("o%d.%d", r, o.Num), kind: "body", text: []byte(o.Stream.Dict), rev: r, idx: i, obj: o.Num})
				d := o.Stream.Data
				ok := true
				if strings.Contains(o.Stream.Dict, "/Filter") {
					ok = false
					if strings.Contains(o.Stream.Dict, "/Filter /FlateDecode") && !strings.Contains(o.Stream.Dict, "/Predictor") {
						d, ok = zinflate(d)
					}
				}
				if ok {
					ps = append(ps, part{name: fmt.Sprintf("d%d.%d", r, o.Num), kind: "data", text: d, rev: r, idx: i, obj: o.Num})
				}
			} else {
				ps = append(ps, part{name: fmt.Sprintf("o%d.%d", r, o.Num), kind: "body", text: []byte(o.Body), rev: r, idx: i, obj: o.Num})
			}
		}
	}
	return ps
}

// ---- ZIP ------------------------------------------------------------------------------------

func zipParts(b *base) []part {
	var ps []part
	for i, m := range b.members {
		ps = append(ps, part{name: fmt.Sprintf("m%d:%s", i, m.Name), kind: "member", text: m.Data, idx: i})
	}
	return ps
}

// buildZip re-zips the members with member-level edits applied.
func buildZip(b *base, za *zipAsm, parts []part, eds []edit) []byte {
	type mem struct {
		idx  int
		data []byte // nil: unchanged
		comp []byte // non-nil: replace the compressed bytes (sizes in headers follow; crc and uncompressed size keep)
	}
	byPart := map[int][]edit{}
	for _, ed := range eds {
		byPart[ed.part] = append(byPart[ed.part], ed)
	}
	var list []mem
	for i := range b.members {
		list = append(list, mem{idx: i})
	}
	var drops, dups []int
	for pi, es := range byPart {
		p := parts[pi]
		var spans []edit
		for _, ed := range es {
			switch ed.op {
			case "drop":
				drops = append(drops, p.idx)
			case "dup":
				dups = append(dups, p.idx)
			default:
				spans = append(spans, ed)
			}
		}
		if len(spans) > 0 {
			if p.kind == "cdata" {
				list[p.idx].comp = applySpanEdits(p.text, spans)
				if list[p.idx].comp == nil {
					list[p.idx].comp = []byte{}
				}
			} else {
				list[p.idx].data = applySpanEdits(p.text, spans)
				if list[p.idx].data == nil {
					list[p.idx].data = []byte{}
				}
			}
		}
	}
	sort.Ints(drops)
	sort.Ints(dups)
	var ents []zipEntry
	for _, m := range list {
		dropped := false
		for _, d := range drops {
			if d == m.idx {
				dropped = true
			}
		}
		if dropped {
			continue
		}
		e := za.entries[m.idx]
		if m.data != nil {
			e = makeEntry(b.members[m.idx].Name, m.data, b.members[m.idx].Store)
		}
		if m.comp != nil {
			e.comp = m.comp
		}
		ents = append(ents, e)
	}
	for _, d := range dups {
		ents = append(ents, za.entries[d])
	}
	return assembleZip(ents)
}
