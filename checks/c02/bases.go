//go:build verif

package main

import (
	"fmt"

	"verif/internal/gen/docxw"
	"verif/internal/gen/epubw"
	"verif/internal/gen/odtw"
	"verif/internal/gen/pdfw"
	"verif/internal/gen/pptxw"
	"verif/internal/gen/xlsxw"
	"verif/internal/gen/zipw"
)

// base is one valid generated document. kind "pdf": file is the pdfw plan the bytes were built
// from (object-level faults rebuild through pdfw.Build so that offsets, /Length and the xref stay
// consistent); kind "zip": members are the uncompressed parts (member-level faults are re-zipped
// validly); kind "html": raw bytes only.
type base struct {
	name    string
	ext     string
	kind    string
	data    []byte
	file    pdfw.File
	xs      *xsBase // container-level PDF written by xsbase.go instead of pdfw (file is unused then)
	rich    bool    // field-inventory base: structural fault classes only (see richbases.go)
	built   pdfw.Built
	members []zipw.Member
}

func ln(f pdfw.FontKind, x, y, size float64, s string) pdfw.Line {
	return pdfw.Line{Font: f, Text: s, X: x, Y: y, Size: size}
}

func tinyDoc() pdfw.Doc {
	return pdfw.Doc{Name: "tiny", Pages: []pdfw.Page{{Lines: []pdfw.Line{
		ln(pdfw.Type1WinAnsi, 72, 700, 14, "Tiny Heading"),
		ln(pdfw.Type1WinAnsi, 72, 670, 10, "body (x) \\ line"),
	}}}}
}

// markedDoc: the content stream also carries a marked-content property dictionary and a TJ array
// (the two operand kinds pdfw's plain lines never produce).
func markedDoc() pdfw.Doc {
	d := tinyDoc()
	d.Name = "marked"
	d.Pages[0].ExtraTokens = []string{"/Span", "<< /MCID 0 /Lang (en) >>", "BDC",
		"BT", "/F1", "9", "Tf", "72", "640", "Td", "[ (T) -80 <4A> ]", "TJ", "ET", "EMC"}
	return d
}

func twoPageDoc() pdfw.Doc {
	return pdfw.Doc{Name: "two", Pages: []pdfw.Page{
		{Lines: []pdfw.Line{ln(pdfw.Type1WinAnsi, 72, 700, 12, "page one alpha"), ln(pdfw.TrueTypeMacRoman, 72, 670, 10, "mac é one")}},
		{Lines: []pdfw.Line{ln(pdfw.Type1WinAnsi, 72, 700, 12, "page two beta")}},
	}}
}

func cidDoc() pdfw.Doc {
	return pdfw.Doc{Name: "cid", Pages: []pdfw.Page{
		{Lines: []pdfw.Line{ln(pdfw.Type0Identity, 72, 700, 10, "日本 x"), ln(pdfw.Type0Identity, 72, 670, 10, "ü\U0001F600")}},
	}}
}

func pdfBase(name string, f pdfw.File) base {
	b := pdfw.Build(f)
	return base{name: name, ext: ".pdf", kind: "pdf", data: b.Bytes, file: f, built: b}
}

// xobjFile is written object by object (pdfw's logical writer has no Form XObjects): a page whose
// content invokes form /Fm1, which shows text and invokes the nested form /Fm2 from its own
// resources. Retargeting the /Fm2 reference to Fm1 (or the page's /Fm1 to ...) closes a cycle.
func xobjFile() pdfw.File {
	s := func(d string) *pdfw.Stream { return &pdfw.Stream{Data: []byte(d)} }
	c1 := "q 1 0 0 1 10 20 cm /Fm1 Do Q\nBT /F1 10 Tf 72 600 Td (page text) Tj ET\n"
	f1 := "BT /F1 10 Tf 5 5 Td (outer form) Tj ET\nq 0.5 0 0 0.5 0 0 cm /Fm2 Do Q\n"
	f2 := "q BT /F1 8 Tf 1 1 Td (inner form) Tj ET\n" // the q is never matched: the form body leaves a saved state behind
	objs := []pdfw.Obj{
		{Num: 1, Body: "<< /Type /Font /Subtype /Type1 /BaseFont /Helvetica /Encoding /WinAnsiEncoding >>"},
		{Num: 2, Stream: s(c1)},
		{Num: 3, Stream: &pdfw.Stream{Dict: "/Type /XObject /Subtype /Form /BBox [0 0 200 200] /Matrix [1 0 0 1 0 0] /Resources << /Font << /F1 1 0 R >> /XObject << /Fm2 4 0 R >> >>", Data: []byte(f1)}},
		{Num: 4, Stream: &pdfw.Stream{Dict: "/Type /XObject /Subtype /Form /BBox [0 0 100 100] /Resources << /Font << /F1 1 0 R >> >>", Data: []byte(f2)}},
		{Num: 5, Body: "<< /Type /Page /Parent 6 0 R /MediaBox [0 0 612 792] /Resources << /Font << /F1 1 0 R >> /XObject << /Fm1 3 0 R /Im1 8 0 R >> >> /Contents 2 0 R >>"},
		{Num: 6, Body: "<< /Type /Pages /Kids [5 0 R] /Count 1 >>"},
		{Num: 7, Body: "<< /Type /Catalog /Pages 6 0 R >>"},
		{Num: 8, Stream: &pdfw.Stream{Dict: "/Type /XObject /Subtype /Image /Width 2 /Height 2 /ColorSpace /DeviceGray /BitsPerComponent 8 /Filter /FlateDecode", Data: pdfw.Zlib([]byte{0, 85, 170, 255})}},
	}
	return pdfw.File{Root: 7, Revs: []pdfw.Revision{{Objs: objs, XRef: "table"}}}
}

// ttfFile: a simple TrueType font with a FontDescriptor and an embedded (minimal, table-directory
// + cmap/head/hhea/maxp/hmtx) font program, plus /FirstChar /Widths.
func ttfFile() pdfw.File {
	prog := minimalTrueType()
	c1 := "BT /F1 10 Tf 72 600 Td (AB) Tj ET\n"
	objs := []pdfw.Obj{
		{Num: 1, Body: "<< /Type /Font /Subtype /TrueType /BaseFont /VerifTT /FirstChar 65 /LastChar 66 /Widths [600 700] /FontDescriptor 2 0 R >>"},
		{Num: 2, Body: "<< /Type /FontDescriptor /FontName /VerifTT /Flags 32 /FontBBox [0 0 1000 1000] /ItalicAngle 0 /Ascent 800 /Descent -200 /CapHeight 700 /StemV 80 /FontFile2 3 0 R >>"},
		{Num: 3, Stream: &pdfw.Stream{Dict: fmt.Sprintf("/Length1 %d", len(prog)), Data: prog}},
		{Num: 4, Stream: &pdfw.Stream{Data: []byte(c1)}},
		{Num: 5, Body: "<< /Type /Page /Parent 6 0 R /MediaBox [0 0 612 792] /Resources << /Font << /F1 1 0 R >> >> /Contents 4 0 R >>"},
		{Num: 6, Body: "<< /Type /Pages /Kids [5 0 R] /Count 1 >>"},
		{Num: 7, Body: "<< /Type /Catalog /Pages 6 0 R >>"},
	}
	return pdfw.File{Root: 7, Revs: []pdfw.Revision{{Objs: objs, XRef: "table"}}}
}

func be16(v int) []byte { return []byte{byte(v >> 8), byte(v)} }
func be32(v int) []byte { return []byte{byte(v >> 24), byte(v >> 16), byte(v >> 8), byte(v)} }

// minimalTrueType builds an sfnt with cmap (format 4: 'A','B' -> glyphs 1,2), head, hhea, maxp, hmtx.
func minimalTrueType() []byte {
	cat := func(p ...[]byte) []byte {
		var o []byte
		for _, x := range p {
			o = append(o, x...)
		}
		return o
	}
	// cmap: version 0, 1 table: platform 3 enc 1 offset 12; format 4 with 2 segments (65..66, 0xFFFF)
	sub := cat(be16(4), be16(32), be16(0), be16(4), be16(4), be16(1), be16(0),
		be16(66), be16(0xFFFF), be16(0), be16(65), be16(0xFFFF), be16(0x10000-64), be16(1), be16(0), be16(0))
	cmap := cat(be16(0), be16(1), be16(3), be16(1), be32(12), sub)
	head := make([]byte, 54)
	copy(head[0:], be32(0x00010000))
	copy(head[12:], be32(0x5F0F3CF5))
	copy(head[18:], be16(1000)) // unitsPerEm
	hhea := make([]byte, 36)
	copy(hhea[0:], be32(0x00010000))
	copy(hhea[4:], be16(800))
	copy(hhea[34:], be16(3)) // numberOfHMetrics
	maxp := cat(be32(0x00005000), be16(3))
	hmtx := cat(be16(500), be16(0), be16(600), be16(0), be16(700), be16(0))
	type tab struct {
		tag  string
		data []byte
	}
	tabs := []tab{{"cmap", cmap}, {"head", head}, {"hhea", hhea}, {"hmtx", hmtx}, {"maxp", maxp}}
	out := cat(be32(0x00010000), be16(len(tabs)), be16(64), be16(2), be16(16))
	off := 12 + 16*len(tabs)
	var body []byte
	for _, t := range tabs {
		out = cat(out, []byte(t.tag), be32(0), be32(off+len(body)), be32(len(t.data)))
		body = append(body, t.data...)
		for len(body)%4 != 0 {
			body = append(body, 0)
		}
	}
	return append(out, body...)
}

func zipBase(name, ext string, m []zipw.Member) base {
	return base{name: name, ext: ext, kind: "zip", data: zipw.Zip(m), members: m}
}

func docxMembers() []zipw.Member {
	doc := docxw.Doc{Body: []docxw.Block{
		docxw.Para{Style: "Heading1", Content: []docxw.Inline{docxw.R(docxw.T("Docx Title"))}},
		docxw.P("docx paragraph one"),
		docxw.Para{NumID: 1, ILvl: 0, Content: []docxw.Inline{docxw.R(docxw.T("docx item one"))}},
		docxw.Table{Cols: 2, Rows: []docxw.Row{{Cells: []docxw.Cell{docxw.C("dh1"), docxw.C("dh2")}}, {Cells: []docxw.Cell{docxw.C("dc1"), docxw.C("dc2")}}}},
	}}
	st := docxw.DefaultStyles()
	if len(st) > 3 {
		st = st[:3] // Normal, Heading1, Heading2
	}
	return docxw.Members(doc, docxw.Opts{Styles: st, Nums: docxw.DefaultNums(), Title: "Docx Sample"})
}

func odtMembers() []zipw.Member {
	doc := odtw.Doc{Body: []odtw.Block{
		odtw.Heading{Style: "Heading_20_1", Level: 1, Content: []odtw.Inline{odtw.Text("Odt Title")}},
		odtw.P("odt paragraph one"),
		odtw.List{Style: "L1", Items: []odtw.Item{{Blocks: []odtw.Block{odtw.P("odt item one")}}}},
		odtw.Table{Cols: 2, Rows: []odtw.Row{{Cells: []odtw.Cell{odtw.C("oh1"), odtw.C("oh2")}}, {Cells: []odtw.Cell{odtw.C("oc1"), odtw.C("oc2")}}}},
	}}
	st := odtw.DefaultStyles()
	if len(st) > 4 {
		st = st[:4]
	}
	return odtw.Members(doc, odtw.Opts{Styles: st, ListStyles: odtw.DefaultListStyles(), Title: "Odt Sample"})
}

func xlsxMembers() []zipw.Member {
	wb := xlsxw.Workbook{Deflate: true, Sheets: []xlsxw.Sheet{
		{Name: "First", Cells: []xlsxw.Cell{{Ref: "A1", Kind: xlsxw.Shared, Value: "name"}, {Ref: "B1", Kind: xlsxw.Shared, Value: "qty"},
			{Ref: "A2", Kind: xlsxw.Inline, Value: "apple"}, {Ref: "B2", Kind: xlsxw.Number, Value: "3"},
			{Ref: "A3", Kind: xlsxw.Shared, Value: "name"}, {Ref: "B3", Kind: xlsxw.Bool, Value: "TRUE"}},
			Merges: nil},
		{Name: "Second", Cells: []xlsxw.Cell{{Ref: "C2", Kind: xlsxw.FormulaStr, Value: "cached"}}},
	}}
	return wb.Members()
}

func pptxMembers() []zipw.Member {
	d := pptxw.Deck{Title: "Pptx Sample", Slides: []pptxw.Slide{
		{Title: "Slide One", Paras: []pptxw.Para{{Text: "slide body"}, {Text: "bullet a", Level: 1, Bullet: "char"}}, Notes: "notes one", Table: [][]string{{"ph1", "ph2"}, {"pc1", "pc2"}}},
	}}
	return d.Members()
}

func epubMembers(version int) []zipw.Member {
	b := epubw.Book{Version: version, Title: "Epub Sample", Author: "Verif", Language: "en", Identifier: "urn:uuid:verif-sample",
		Chapters: []epubw.Chapter{
			{ID: "c1", Title: "Chapter One", Body: "<p>epub first paragraph</p><ul><li>e item one</li></ul>"},
			{ID: "c2", Title: "Chapter Two", Body: "<table><tr><th>eh1</th></tr><tr><td>ec1</td></tr></table>"},
		}}
	return b.Members()
}

func htmlBytes() []byte {
	return []byte(`<!DOCTYPE html>
<html><head><title>Html Sample</title><style>p{color:red}</style></head>
<body><nav><ul><li><a href="/a">nav one</a></li></ul></nav>
<main><h1>Html Title</h1><p>html paragraph one with &amp; entity</p>
<ul><li>h item one<ul><li>h nested</li></ul></li></ul>
<table><thead><tr><th>hh1</th><th>hh2</th></tr></thead><tbody><tr><td colspan="2">hc1</td></tr></tbody></table>
<pre><code>code line</code></pre><blockquote>quoted text</blockquote></main>
<footer><p>footer text</p></footer><script>var x = "script text";</script></body></html>
`)
}

func allBases() []base {
	var bs []base
	bs = append(bs,
		pdfBase("pdf-classic", pdfw.Plan(markedDoc(), pdfw.Layout{})),
		xsContainerBase(),
		pdfBase("pdf-xstream", pdfw.Plan(twoPageDoc(), pdfw.Layout{XRef: "stream", ObjStm: "all", Filter: "Fl"})),
		pdfBase("pdf-cid", pdfw.Plan(cidDoc(), pdfw.Layout{})),
		pdfBase("pdf-indlen", pdfw.Plan(tinyDoc(), pdfw.Layout{Length: "after", Indirect: true})),
		pdfBase("pdf-rev2", pdfw.Plan(twoPageDoc(), pdfw.Layout{Revisions: 2, Depth: 2})),
		pdfBase("pdf-png", pdfw.Plan(tinyDoc(), pdfw.Layout{Filter: "FlPNG", XRef: "stream"})),
		pdfBase("pdf-xobj", xobjFile()),
		pdfBase("pdf-ttf", ttfFile()),
	)
	bs = append(bs,
		zipBase("docx", ".docx", docxMembers()),
		zipBase("odt", ".odt", odtMembers()),
		zipBase("xlsx", ".xlsx", xlsxMembers()),
		zipBase("pptx", ".pptx", pptxMembers()),
		zipBase("epub2", ".epub", epubMembers(2)),
		zipBase("epub3", ".epub", epubMembers(3)),
	)
	bs = append(bs, base{name: "html", ext: ".html", kind: "html", data: htmlBytes()})
	bs = append(bs, richBases()...)
	return bs
}
