//go:build verif

package main

import (
	"bytes"
	"fmt"
	"os"
	"regexp"
	"sort"
	"strconv"
	"strings"
)

func ruleText(thorough bool) string {
	reduced := "QUICK TIER BOUNDS: every single fault of classes 1-8 on every base at its stated sites, with these reductions of the entry list / site set: " +
		"(a) byte-level classes (every-offset truncation, byte substitution) only on the plain bases and there not on ODT, PPTX, EPUB2 (same archive/zip + encoding/xml + x/net/html layers as DOCX, XLSX, EPUB3, HTML), through Text, ToMarkdown, PageCount (PDF; Chunks is a prefix of ToMarkdown) or Text (other formats) + the matching raw parsers; " +
		"(b) raw PDF truncation at token boundaries runs the full entry list only where an object, stream or xref section begins or ends, elsewhere the reduced list; truncation of a ZIP member at its token boundaries runs Text only; (c) delimiter faults inside ZIP members run Text, ToMarkdown, Chunks, reader.API instead of the full list (numeric, reference, drop/duplicate, stream and nesting faults always run the full list); " +
		"(d) doubles: only pairs of faults in the SAME group - the same PDF object (inside a content stream or CMap: the same line = one operator with its operands; inside an xref table: the same entry line), the same XML/HTML tag - in which at least one fault is numeric or a retargeted reference/offset, numeric replacements restricted to 0, -1, 2147483648; no doubles in the binary ZIP header records; run through Text, PageCount (PDF) or Text (other formats; two numeric attributes of one element: Text, ToMarkdown, Chunks) + the matching raw parsers. " +
		"Everything left out here (other same-group pairs, the full entry lists, byte-level faults on ODT/PPTX/EPUB2, all cross-group pairs) is what the thorough tier adds; no double fault across two objects / members / tags is covered by quick. "
	if thorough {
		reduced = "THOROUGH TIER BOUNDS: every single fault with the full entry list (byte-level classes: Text, ToMarkdown, Chunks, PageCount + the matching raw parsers, on all plain bases); doubles: ALL pairs of structural faults (classes 2-6, all five numeric values) within the same group (PDF object / content-stream line / xref entry line / ZIP record / XML tag), then the cross-group pairs of the same layer base by base until the internal time budget (11 min) is used up - which bases were not completed is listed in caps_hit, so exhaustive=false; run through Text, Chunks, PageCount + the matching raw parsers. "
	}
	return "field-inventory bases (structural classes only; the inventory field -> base is in the evidence note field_inventory): pdf-rich, pdf-rev3, pdf-rev3x, docx-rich, odt-rich, xlsx-rich, pptx-rich, epub-rich, html-rich. Numeric class also tries 1048576; the hex-string operands of CMap operators (decoded stream, file rebuilt consistently) are numeric sites with the values zero / all-F of the same width, FFFFFFFF, 7FFFFFFF, 80000000 and lo>hi swap; every big-endian integer tabula reads out of an embedded TrueType program (offset table, table directory records, head/hhea/hmtx/cmap fields; decoded stream, rebuilt consistently) is a numeric site with 0, 1, 7F.., 80.., FF..F0, FF..FF, and the fields of one directory record / table header pair up in the quick doubles; class 8 = nesting amplifier (every PDF '[' x4096, '<<' x2048, every HTML/XHTML start tag x3000; singles only). Plain bases: 9 generated PDFs (classic xref with a marked-content dictionary and a TJ array in the content; uncompressed xref stream+object stream; xref stream+object streams+Flate; Type0/ToUnicode; indirect /Length+indirect Resources; two revisions+depth-2 page tree; Flate+PNG predictor+xref stream; nested Form XObjects; embedded TrueType program), DOCX, ODT, XLSX, PPTX, EPUB2, EPUB3, HTML (0.6-7 KB each). " +
		"Fault catalogue, applied at EVERY site (no sampling): (1) truncation at every byte offset of the file and at every token boundary of every ZIP member / decoded PDF stream (container rebuilt consistently); (2) every maximal digit run -> 0, -1, 2147483648, 9223372036854775807, every binary ZIP header field -> 0, all-ones, high-bit, max-positive; " +
		"(3) PDF: every indirect reference retargeted to every object number, every startxref, /Prev and xref-entry offset retargeted to every section and object offset; (4) every PDF object dropped / duplicated (rebuilt through pdfw with a consistent xref, and raw span removal / duplication), every ZIP member dropped / duplicated; " +
		"(5) every delimiter deleted / doubled / swapped for its partner (PDF ( ) [ ] < > << >>, XML/HTML < > \" / = & ;); (6) every compressed stream (PDF Flate streams, deflated ZIP members: raw bytes and inside a consistent container) first/middle/last byte flipped, truncated by 1, emptied; " +
		"(7) single-byte substitution at every offset of every base file, of every ZIP member's content (re-zipped validly) and of every decoded PDF Flate stream (re-encoded) from {00,FF,20,0A,<,>,(,),[,/,0,9}. Classes 2,3,5 are applied twice on PDFs: on the raw bytes, and on the object bodies of the pdfw plan with the file rebuilt (offsets and /Length stay consistent). " +
		"Entry points: structural singles and token-boundary truncations run tabula.Open(f) x {Text, ToMarkdown, ToMarkdownWithOptions, Chunks, ChunksWithConfig, Document, PageCount, ExcludeHeadersAndFooters.Text, JoinParagraphs.Text, Pages(1).Text} (+ for PDFs Fragments, Analyze, Lines, Paragraphs, ReadingOrder, Headings, Lists, Blocks, Elements, IsCharacterLevel, IsMultiColumn, ExcludeHeadersAndFooters.Lines, ByColumn.Text, PreserveLayout.Text; for HTML FromHTMLString/FromHTMLReader x Text, ToMarkdown, Document, Chunks) + format.DetectFromReader + reader.API (the format's own reader package driven directly: reader.Open + GetObject of every object, GetPage/MediaBox/Resources/Contents/ExtractText/ExtractPageImages, ResolveDeep(trailer), FromReader.Text; docx/odt/xlsx/pptx/epubdoc/htmldoc Open + every exported accessor) + the raw parsers that match the faulted span " +
		"(core.Parser.ParseIndirectObject/ParseObject on the object, XRefParser.ParseXRefFromEOF/ParseAllXRefs on the file, contentstream.Parse + text.ExtractFromBytes on a content stream, font.ParseToUnicodeCMap on a CMap, Stream.Decode/ObjectStream on Flate data); " + reduced +
		"every PDF-only method is also called on every non-PDF base (unfaulted, empty, cut in half). distinct = distinct descriptors (base, part, fault class, site, replacement, entry); non-trivial = at least one fault applied. " +
		"Oracle: the call returns a value or an error; violation = Go panic (signature panic@first tabula frame), blown step/depth/allocation budget (steps@outermost function on the stack with a hot loop, depth@most frequent function on the stack, alloc@make site), worker death, 300 s backstop."
}

// quickPair selects the same-group doubles of the quick tier (thorough runs all of them):
// at least one of the two faults is numeric or a retargeted reference/offset (two damaged delimiters
// in one object or tag only break the syntax again), numeric replacements are 0, -1 and 2147483648
// (9223372036854775807 and 1048576 stay single faults), and the binary header records of the ZIP
// container (archive/zip's own parsing) get no doubles.
func quickPair(bi *baseInfo, x, y edit) bool {
	valued := func(e edit) bool {
		switch {
		case strings.HasPrefix(e.class, "numbin:"): // binary integer fields: all six values
			return true
		case isNum(e):
			return e.val == "0" || e.val == "-1" || e.val == "2147483648"
		case e.class == "ref" || e.class == "prev" || e.class == "startxref" || e.class == "xrefent":
			return true
		}
		return false
	}
	if bi.b.kind == "zip" && bi.parts[x.part].kind == "raw" {
		return false
	}
	if isNum(x) && !valued(x) || isNum(y) && !valued(y) {
		return false
	}
	return valued(x) || valued(y)
}

func isNum(e edit) bool { return strings.HasPrefix(e.class, "num") }

func hexv(c byte) string { return fmt.Sprintf("%02X", c) }

var rePrev = regexp.MustCompile(`/Prev ([0-9]+)`)
var reStartxref = regexp.MustCompile(`startxref\s+([0-9]+)`)

func (r *runner) timeUp(what string) bool {
	if r.stop || r.e.TimeUp() {
		r.e.Incomplete(what + ": not completed within the internal time budget")
		r.stop = true
	}
	return r.stop
}

// pairs runs compatible pairs of structural edits. cross=false: all pairs within the same group
// (PDF object / xref section / ZIP record / XML tag) - the set the quick tier completes; cross=true
// (thorough, second phase): every remaining pair of the layer until the time budget is used up.
func (r *runner) pairs(bi *baseInfo, all []edit, cross bool) {
	var S []edit // doubles combine the classes 2-6; the nesting amplifier stays a single fault
	for _, ed := range all {
		if ed.class != "nest" {
			S = append(S, ed)
		}
	}
	key := func(ed edit) string { return bi.parts[ed.part].name + "|" + ed.group }
	if !cross {
		byGroup := map[string][]int{}
		var groups []string
		for i, ed := range S {
			g := key(ed)
			if _, ok := byGroup[g]; !ok {
				groups = append(groups, g)
			}
			byGroup[g] = append(byGroup[g], i)
		}
		for _, g := range groups {
			idx := byGroup[g]
			for a := 0; a < len(idx); a++ {
				for b := a + 1; b < len(idx); b++ {
					x, y := S[idx[a]], S[idx[b]]
					if !compatible(x, y) {
						continue
					}
					if !r.e.Thorough() && !quickPair(bi, x, y) {
						continue
					}
					eds := []edit{x, y}
					level := "pair"
					if !r.e.Thorough() && bi.b.kind != "pdf" && isNum(x) && isNum(y) {
						level = "pairnum"
					}
					r.exec(bi, eds, r.entriesFor(bi, eds, level))
				}
			}
		}
		return
	}
	n := 0
	for i := 0; i < len(S); i++ {
		ki := key(S[i])
		for j := i + 1; j < len(S); j++ {
			x, y := S[i], S[j]
			if ki == key(y) || !compatible(x, y) {
				continue
			}
			if n++; n%64 == 0 && r.timeUp("cross-group doubles of "+bi.b.name) {
				return
			}
			eds := []edit{x, y}
			r.exec(bi, eds, r.entriesFor(bi, eds, "pair"))
		}
	}
}

// byteLevel: do the byte-level classes (every-offset truncation, byte substitution) run on this base?
// Never on the field-inventory bases; in the quick tier also not on ODT, PPTX and EPUB2, whose
// containers and XML syntax layer (archive/zip, encoding/xml, x/net/html) are the same code that the
// DOCX, XLSX, EPUB3 and HTML bases already put under every byte fault. Thorough runs them all.
func (r *runner) byteLevel(bi *baseInfo) bool {
	if bi.b.rich {
		return false
	}
	if !r.e.Thorough() {
		switch bi.b.name {
		case "odt", "pptx", "epub2":
			return false
		}
	}
	return true
}

func (r *runner) singles(bi *baseInfo, eds []edit, level string) {
	if r.phase != 1 {
		return
	}
	for _, ed := range eds {
		one := []edit{ed}
		lv := level
		// quick, ZIP members: a damaged delimiter mostly ends in the XML decoder; four entry points
		// (the three output paths + the reader's own API) instead of all of them
		if !r.e.Thorough() && bi.b.kind == "zip" && ed.class == "delim" {
			lv = "mid"
		}
		r.exec(bi, one, r.entriesFor(bi, one, lv))
	}
}

func (r *runner) subs(bi *baseInfo, pi int, text []byte, groupOf func(int) string) {
	if r.phase != 1 || !r.byteLevel(bi) {
		return
	}
	for off, c := range text {
		for _, v := range subAlphabet {
			if v == c {
				continue
			}
			one := []edit{{part: pi, s: off, e: off + 1, repl: []byte{v}, class: "sub", val: hexv(v), group: groupOf(off)}}
			r.exec(bi, one, r.entriesFor(bi, one, "reduced"))
		}
	}
}

func (r *runner) truncs(bi *baseInfo, pi int, text []byte, full map[int]bool, tokLevel func(int) string, everyByte bool, groupOf func(int) string) {
	if r.phase != 1 {
		return
	}
	for off := 0; off < len(text); off++ {
		level := "reduced"
		class := "truncb"
		if full[off] {
			level, class = "full", "trunc"
			if tokLevel != nil && !r.e.Thorough() {
				level = tokLevel(off)
			}
		} else if !everyByte || !r.byteLevel(bi) {
			continue
		}
		one := []edit{{part: pi, s: off, e: len(text), class: class, group: groupOf(off)}}
		r.exec(bi, one, r.entriesFor(bi, one, level))
	}
}

func xmlGroup(text []byte) func(int) string {
	g := make([]int, len(text)+1)
	k := 0
	for i, c := range text {
		if c == '<' {
			k++
		}
		g[i] = k
		if c == '>' {
			k++
		}
	}
	g[len(text)] = k
	return func(off int) string {
		if off > len(text) {
			off = len(text)
		}
		return "t" + strconv.Itoa(g[off])
	}
}

func (r *runner) mismatch(bi *baseInfo) {
	n := len(bi.b.data)
	for _, eds := range [][]edit{nil, {{part: 0, s: 0, e: n, class: "trunc"}}, {{part: 0, s: n / 2, e: n, class: "trunc"}}} {
		var ents []entry
		for _, en := range pdfOnlyEntries {
			en.name = "mismatch." + en.name
			ents = append(ents, en)
		}
		r.exec(bi, eds, ents)
	}
}

// enumerate: phase 1 = unfaulted base, all singles, all same-group doubles; phase 2 (thorough
// only, after phase 1 of every base) = the cross-group doubles, under the time budget.
func (r *runner) enumerate(bi *baseInfo, phase int) {
	b := bi.b
	r.phase = phase
	if phase == 1 {
		r.exec(bi, nil, r.entriesFor(bi, nil, "full"))
		if b.kind != "pdf" {
			r.mismatch(bi)
		}
	} else if r.timeUp("cross-group doubles of " + b.name) {
		return
	}
	switch b.kind {
	case "pdf":
		r.phase = phase
		r.enumPDF(bi, phase)
	case "zip":
		r.enumZip(bi, phase)
	case "html":
		r.enumHTML(bi, phase)
	}
}

func (r *runner) enumPDF(bi *baseInfo, phase int) {
	b := bi.b
	data := b.data
	spans := bi.spans
	skip := func(off int) bool { return inBinary(spans, off) }
	// same-group doubles: faults of one object / xref section; inside the data of a textual
	// stream (content stream, CMap) the group is the line, i.e. one operator with its operands
	groupOf := func(off int) string {
		if off >= len(data) {
			off = len(data) - 1
		}
		sp := spanOf(spans, off)
		if sp.dkind == "text" && off >= sp.ds && off < sp.de {
			return sp.group + ":L" + strconv.Itoa(bytes.Count(data[sp.ds:off], []byte("\n")))
		}
		if sp.kind == "section" && bytes.HasPrefix(data[sp.s:], []byte("xref")) { // xref table: one entry / the trailer line
			return sp.group + ":L" + strconv.Itoa(bytes.Count(data[sp.s:off], []byte("\n")))
		}
		return sp.group
	}
	nobj := b.built.Size - 1
	var S []edit

	// (1) truncation
	full := map[int]bool{}
	for _, off := range tokenBoundaries(data, skip, "()<>[]/%") {
		full[off] = true
	}
	for _, sp := range spans {
		full[sp.s] = true
		if sp.de > sp.ds {
			full[sp.ds], full[sp.de] = true, true
		}
	}
	// quick: the full entry list where an object, a stream or an xref section begins or ends; at the
	// token boundaries inside them the reduced list (the file is cut before its xref either way)
	top := map[int]bool{}
	for _, sp := range spans {
		top[sp.s] = true
		if sp.de > sp.ds {
			top[sp.ds], top[sp.de] = true, true
		}
	}
	r.truncs(bi, 0, data, full, func(off int) string {
		if top[off] {
			return "full"
		}
		return "reduced"
	}, true, groupOf)

	// (2)(3)(5) on the raw bytes
	S = append(S, structuralEdits(0, data, true, nobj, skip, groupOf, nil)...)
	S = append(S, nestEdits(0, data, true, skip, groupOf)...)

	// (3) offsets: startxref, /Prev, xref entries -> every section / object offset
	var targets []int
	for _, sp := range spans[1:] {
		targets = append(targets, sp.s)
	}
	addOff := func(s, e int, class string) {
		cur, _ := strconv.Atoi(string(data[s:e]))
		for _, t := range targets {
			if t == cur {
				continue
			}
			v := strconv.Itoa(t)
			if class == "xrefent" {
				v = fmt.Sprintf("%010d", t)
			}
			S = append(S, edit{part: 0, s: s, e: e, repl: []byte(v), class: class, val: strconv.Itoa(t), group: groupOf(s)})
		}
	}
	for _, m := range reStartxref.FindAllSubmatchIndex(data, -1) {
		if !skip(m[0]) {
			addOff(m[2], m[3], "startxref")
		}
	}
	for _, m := range rePrev.FindAllSubmatchIndex(data, -1) {
		if !skip(m[0]) {
			addOff(m[2], m[3], "prev")
		}
	}
	for _, t := range b.built.Tokens {
		if t.Kind == "xref-entry" && data[t.Start+17] == 'n' {
			addOff(t.Start, t.Start+10, "xrefent")
		}
	}

	// (4) raw removal / duplication of every object and section span
	for _, sp := range spans[1:] {
		S = append(S, edit{part: 0, s: sp.s, e: sp.e, class: "rawdrop", group: sp.group})
		S = append(S, edit{part: 0, s: sp.e, e: sp.e, repl: append([]byte(nil), data[sp.s:sp.e]...), class: "rawdup", val: strconv.Itoa(sp.s), group: sp.group})
	}
	// (6) compressed / binary stream data
	for _, sp := range spans {
		if sp.dkind == "binary" {
			S = append(S, streamEdits(0, sp.ds, sp.de, data, sp.group)...)
		}
	}
	r.singles(bi, S, "full")
	if phase == 1 {
		r.sites["raw"] += len(S)
	}

	// (7) byte substitution
	r.subs(bi, 0, data, groupOf)

	// object layer (rebuilt through pdfw)
	var T []edit
	for pi := 1; pi < len(bi.parts); pi++ {
		p := bi.parts[pi]
		g := func(int) string { return p.name }
		if p.kind == "data" {
			g = func(off int) string {
				if off > len(p.text) {
					off = len(p.text)
				}
				return p.name + ":L" + strconv.Itoa(bytes.Count(p.text[:off], []byte("\n")))
			}
		}
		switch p.kind {
		case "body":
			T = append(T, structuralEdits(pi, p.text, true, nobj, nil, g, nil)...)
			T = append(T, nestEdits(pi, p.text, true, nil, g)...)
			if !p.xs {
				T = append(T, edit{part: pi, op: "drop", class: "drop", group: p.name})
				T = append(T, edit{part: pi, op: "dup", class: "dup", group: p.name})
			}
		case "data":
			if isTextual(p.text) {
				T = append(T, structuralEdits(pi, p.text, true, 0, nil, g, nil)...)
				T = append(T, nestEdits(pi, p.text, true, nil, g)...)
				if bytes.Contains(p.text, []byte("begincmap")) {
					T = append(T, hexEdits(pi, p.text, g)...)
				}
			} else if p.xs {
				T = append(T, streamEdits(pi, 0, len(p.text), p.text, p.name)...)
			} else if fs := sfntFields(p.text); fs != nil {
				// embedded font program: every integer tabula reads is a numeric site (Length consistent)
				T = append(T, binEdits(pi, p.text, fs, p.name)...)
			}
		}
	}
	r.singles(bi, T, "full")
	if phase == 1 {
		r.sites["obj"] += len(T)
	}
	for pi := 1; pi < len(bi.parts); pi++ {
		p := bi.parts[pi]
		if p.kind != "data" {
			continue
		}
		g := func(int) string { return p.name }
		tb := map[int]bool{}
		for _, off := range tokenBoundaries(p.text, nil, "()<>[]/%") {
			tb[off] = true
		}
		// truncation at every token boundary of the decoded data, /Length and offsets consistent
		r.truncs(bi, pi, p.text, tb, nil, false, g)
		if !p.xs {
			o := b.file.Revs[p.rev].Objs[p.idx]
			if o.Stream == nil || !bytes.Contains([]byte(o.Stream.Dict), []byte("/Filter")) {
				continue // unfiltered: the raw layer already substitutes these bytes
			}
		} else if isTextual(p.text) {
			continue // the content stream: same bytes as in the raw layer
		}
		r.subs(bi, pi, p.text, g)
	}

	r.pairs(bi, S, phase == 2)
	r.pairs(bi, T, phase == 2)
}

func (r *runner) enumZip(bi *baseInfo, phase int) {
	b := bi.b
	data := b.data
	fields, datas, err := scanZip(data)
	if err != nil {
		fmt.Fprintln(os.Stderr, "scanZip:", b.name, err)
		os.Exit(2)
	}
	sort.Slice(fields, func(i, j int) bool { return fields[i].off < fields[j].off })
	groupOf := func(off int) string {
		g := "pre"
		for _, f := range fields {
			if f.off <= off {
				g = f.group
			}
		}
		for _, d := range datas {
			if off >= d.s && off < d.e {
				g = "data:" + d.member
			}
		}
		return g
	}
	var S []edit
	full := map[int]bool{}
	prevGroup := ""
	for _, f := range fields {
		if f.group != prevGroup {
			full[f.off-4] = true // the record signature
			prevGroup = f.group
		}
	}
	for _, d := range datas {
		full[d.s], full[d.e] = true, true
	}
	r.truncs(bi, 0, data, full, nil, true, groupOf)

	for _, f := range fields {
		var vals [][2]string
		if f.width == 2 {
			vals = [][2]string{{"\x00\x00", "0"}, {"\xFF\xFF", "-1"}, {"\x00\x80", "2^15"}, {"\xFF\x7F", "2^15-1"}}
		} else {
			vals = [][2]string{{"\x00\x00\x00\x00", "0"}, {"\xFF\xFF\xFF\xFF", "-1"}, {"\x00\x00\x00\x80", "2^31"}, {"\xFF\xFF\xFF\x7F", "2^31-1"}}
		}
		for _, v := range vals {
			if string(data[f.off:f.off+f.width]) == v[0] {
				continue
			}
			S = append(S, edit{part: 0, s: f.off, e: f.off + f.width, repl: []byte(v[0]), class: "num:" + f.name, val: v[1], group: f.group})
		}
	}
	for _, d := range datas {
		if d.method == 8 {
			S = append(S, streamEdits(0, d.s, d.e, data, "data:"+d.member)...)
		}
	}
	r.singles(bi, S, "full")
	if phase == 1 {
		r.sites["raw"] += len(S)
	}
	r.subs(bi, 0, data, groupOf)

	var T []edit
	for pi := 1; pi < len(bi.parts); pi++ {
		p := bi.parts[pi]
		switch p.kind {
		case "member":
			T = append(T, structuralEdits(pi, p.text, false, 0, nil, xmlGroup(p.text), nil)...)
			if strings.HasSuffix(p.name, ".xhtml") || strings.HasSuffix(p.name, ".html") {
				T = append(T, nestEdits(pi, p.text, false, nil, xmlGroup(p.text))...)
			}
			T = append(T, edit{part: pi, op: "drop", class: "drop", group: p.name})
			T = append(T, edit{part: pi, op: "dup", class: "dup", group: p.name})
		case "cdata":
			T = append(T, streamEdits(pi, 0, len(p.text), p.text, p.name)...)
		}
	}
	r.singles(bi, T, "full")
	if phase == 1 {
		r.sites["member"] += len(T)
	}
	for pi := 1; pi < len(bi.parts); pi++ {
		p := bi.parts[pi]
		if p.kind != "member" {
			continue
		}
		tb := map[int]bool{}
		for _, off := range tokenBoundaries(p.text, nil, "<>\"=/&;") {
			tb[off] = true
		}
		g := xmlGroup(p.text)
		r.truncs(bi, pi, p.text, tb, func(int) string { return "reduced" }, false, g) // quick: a cut member is malformed XML
		r.subs(bi, pi, p.text, g)
	}
	r.pairs(bi, S, phase == 2)
	r.pairs(bi, T, phase == 2)
}

func (r *runner) enumHTML(bi *baseInfo, phase int) {
	data := bi.b.data
	g := xmlGroup(data)
	tb := map[int]bool{}
	for _, off := range tokenBoundaries(data, nil, "<>\"=/&;") {
		tb[off] = true
	}
	r.truncs(bi, 0, data, tb, nil, true, g)
	S := structuralEdits(0, data, false, 0, nil, g, nil)
	S = append(S, nestEdits(0, data, false, nil, g)...)
	r.singles(bi, S, "full")
	if phase == 1 {
		r.sites["raw"] += len(S)
	}
	r.subs(bi, 0, data, g)
	r.pairs(bi, S, phase == 2)
}
