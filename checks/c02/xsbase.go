//go:build verif

package main

import (
	"bytes"
	"fmt"

	"verif/internal/gen/pdfw"
)

// xsBase is a PDF with an (uncompressed) object stream and an (uncompressed) cross-reference stream
// whose CONTAINER texts are fault sites of their own: the /ObjStm dictionary (/N, /First), the
// object-stream header (number/offset pairs), the /XRef dictionary (/Size, /W, /Index) and the
// binary xref entries. pdfw generates those inside Build, where a raw edit that changes a length
// shifts every later offset and the file dies at startxref before the faulted field is ever used.
// Here a part that is under fault is written verbatim, everything else (/Length, offsets, entries)
// is recomputed from the actual layout, so the file stays consistent except for the faulted field.
type xsBase struct {
	plain  []pdfw.Obj // written as ordinary objects (streams allowed)
	packed []pdfw.Obj // written into the object stream
	stmNum int
	xrNum  int
	root   int
}

const (
	xpBody   = iota // plain[i] body / stream dict
	xpData          // plain[i] stream data
	xpPacked        // packed[i] body
	xpStmDict
	xpStmHeader
	xpXRefDict
	xpXRefData
)

type xsPart struct {
	kind, idx int
}

func (x *xsBase) partList() []xsPart {
	var ps []xsPart
	for i, o := range x.plain {
		ps = append(ps, xsPart{xpBody, i})
		if o.Stream != nil {
			ps = append(ps, xsPart{xpData, i})
		}
	}
	for i := range x.packed {
		ps = append(ps, xsPart{xpPacked, i})
	}
	return append(ps, xsPart{xpStmDict, 0}, xsPart{xpStmHeader, 0}, xsPart{xpXRefDict, 0}, xsPart{xpXRefData, 0})
}

func (p xsPart) name(x *xsBase) string {
	switch p.kind {
	case xpBody:
		return fmt.Sprintf("o.%d", x.plain[p.idx].Num)
	case xpData:
		return fmt.Sprintf("d.%d", x.plain[p.idx].Num)
	case xpPacked:
		return fmt.Sprintf("p.%d", x.packed[p.idx].Num)
	case xpStmDict:
		return "objstm-dict"
	case xpStmHeader:
		return "objstm-header"
	case xpXRefDict:
		return "xref-dict"
	}
	return "xref-data"
}

// build writes the file. over[i] != nil replaces the text of partList()[i]. It returns the bytes,
// the default text of every part (what an unfaulted build writes there) and a pdfw-style token map.
func (x *xsBase) build(over map[int][]byte) (out []byte, texts [][]byte, toks []pdfw.Token) {
	parts := x.partList()
	texts = make([][]byte, len(parts))
	pi := map[xsPart]int{}
	for i, p := range parts {
		pi[p] = i
	}
	text := func(p xsPart, dflt []byte) []byte {
		i := pi[p]
		texts[i] = dflt
		if o, ok := over[i]; ok {
			return o
		}
		return dflt
	}
	var buf bytes.Buffer
	mark := func(kind string, s, obj int) {
		toks = append(toks, pdfw.Token{Kind: kind, Start: s, End: buf.Len(), Obj: obj})
	}
	buf.WriteString("%PDF-1.7\n%\xE2\xE3\xCF\xD3\n")
	mark("header", 0, 0)
	type ent struct {
		typ, f1, f2 int
	}
	ents := map[int]ent{0: {0, 0, 65535}}
	writeStream := func(num int, dict, data []byte) {
		s := buf.Len()
		ents[num] = ent{1, s, 0}
		fmt.Fprintf(&buf, "%d 0 obj\n", num)
		mark("objhdr", s, num)
		s = buf.Len()
		buf.WriteString("<<")
		if len(dict) > 0 {
			buf.WriteString(" ")
			buf.Write(dict)
		}
		fmt.Fprintf(&buf, " /Length %d >>\n", len(data))
		mark("body", s, num)
		buf.WriteString("stream\n")
		s = buf.Len()
		buf.Write(data)
		mark("stream-data", s, num)
		buf.WriteString("\nendstream\nendobj\n")
	}
	for i, o := range x.plain {
		if o.Stream != nil {
			writeStream(o.Num, text(xsPart{xpBody, i}, []byte(o.Stream.Dict)), text(xsPart{xpData, i}, o.Stream.Data))
			continue
		}
		s := buf.Len()
		ents[o.Num] = ent{1, s, 0}
		fmt.Fprintf(&buf, "%d 0 obj\n", o.Num)
		mark("objhdr", s, o.Num)
		s = buf.Len()
		buf.Write(text(xsPart{xpBody, i}, []byte(o.Body)))
		buf.WriteString("\n")
		mark("body", s, o.Num)
		buf.WriteString("endobj\n")
	}
	// object stream
	var hdr, body bytes.Buffer
	for i, o := range x.packed {
		if i > 0 {
			hdr.WriteByte(' ')
		}
		fmt.Fprintf(&hdr, "%d %d", o.Num, body.Len())
		body.Write(text(xsPart{xpPacked, i}, []byte(o.Body)))
		body.WriteByte('\n')
		ents[o.Num] = ent{2, x.stmNum, i}
	}
	h := text(xsPart{xpStmHeader, 0}, hdr.Bytes())
	first := len(hdr.Bytes()) + 1 // /First describes the unfaulted header unless the dictionary itself is under fault
	if _, ok := over[pi[xsPart{xpStmHeader, 0}]]; ok {
		first = len(h) + 1
	}
	sd := text(xsPart{xpStmDict, 0}, []byte(fmt.Sprintf("/Type /ObjStm /N %d /First %d", len(x.packed), first)))
	writeStream(x.stmNum, sd, append(append(append([]byte(nil), h...), '\n'), body.Bytes()...))
	// xref stream
	xoff := buf.Len()
	ents[x.xrNum] = ent{1, xoff, 0}
	size := x.xrNum + 1
	var data bytes.Buffer
	for n := 0; n < size; n++ {
		e := ents[n]
		data.WriteByte(byte(e.typ))
		data.Write([]byte{byte(e.f1 >> 24), byte(e.f1 >> 16), byte(e.f1 >> 8), byte(e.f1)})
		data.Write([]byte{byte(e.f2 >> 8), byte(e.f2)})
	}
	xd := text(xsPart{xpXRefDict, 0}, []byte(fmt.Sprintf("/Type /XRef /Size %d /W [1 4 2] /Index [0 %d] /Root %d 0 R", size, size, x.root)))
	xdata := text(xsPart{xpXRefData, 0}, data.Bytes())
	s := buf.Len()
	fmt.Fprintf(&buf, "%d 0 obj\n<< %s /Length %d >>\nstream\n", x.xrNum, xd, len(xdata))
	buf.Write(xdata)
	buf.WriteString("\nendstream\nendobj\n")
	mark("xref-stream", s, x.xrNum)
	s = buf.Len()
	fmt.Fprintf(&buf, "startxref\n%d\n%%%%EOF\n", xoff)
	mark("startxref", s, 0)
	return buf.Bytes(), texts, toks
}

func xsContainerBase() base {
	x := &xsBase{
		plain: []pdfw.Obj{{Num: 2, Stream: &pdfw.Stream{Data: []byte("BT /F1 14 Tf 72 700 Td (Tiny Heading) Tj ET\nBT /F1 10 Tf 72 670 Td (second line) Tj ET\n")}}},
		packed: []pdfw.Obj{
			{Num: 1, Body: "<< /Type /Font /Subtype /Type1 /BaseFont /Helvetica /Encoding /WinAnsiEncoding >>"},
			{Num: 3, Body: "<< /Type /Page /Parent 4 0 R /MediaBox [0 0 612 792] /Resources << /Font << /F1 1 0 R >> >> /Contents 2 0 R >>"},
			{Num: 4, Body: "<< /Type /Pages /Kids [3 0 R] /Count 1 >>"},
			{Num: 5, Body: "<< /Type /Catalog /Pages 4 0 R >>"},
		},
		stmNum: 6, xrNum: 7, root: 5,
	}
	data, _, toks := x.build(nil)
	return base{name: "pdf-xscont", ext: ".pdf", kind: "pdf", data: data, xs: x,
		built: pdfw.Built{Bytes: data, Tokens: toks, Size: x.xrNum + 1}}
}
