// C01 — PDF text survives every physical file layout.
// Logical documents x physical-layout vectors (deviation-bounded / full product), written by the
// independent writer internal/gen/pdfw and read back through tabula's reader and public API.
package main

import (
	"fmt"
	"os"
	"path/filepath"
	"regexp"
	"strings"

	"github.com/tsawler/tabula"
	"github.com/tsawler/tabula/reader"
	"golang.org/x/text/unicode/norm"
	"verif/internal/gen/pdfw"
	"verif/internal/harness"
)

func main() { harness.Main("C01", "exploration", run) }

func lcgText(seed, n int) string {
	const al = "ABCDEFGHIJKLMNOPQRSTUVWXYZabcdefghijklmnopqrstuvwxyz0123456789"
	x := uint32(seed*2654435761 + 12345)
	b := make([]byte, n)
	for i := range b {
		x = x*1664525 + 1013904223
		b[i] = al[(x>>16)%uint32(len(al))]
	}
	return string(b)
}

func docs() []pdfw.Doc {
	ln := func(f pdfw.FontKind, y float64, s string) pdfw.Line {
		return pdfw.Line{Font: f, Text: s, X: 72, Y: y, Size: 10}
	}
	tiny := pdfw.Doc{Name: "tiny", Pages: []pdfw.Page{{Lines: []pdfw.Line{
		ln(pdfw.Type1WinAnsi, 700, "Hello World"),
		ln(pdfw.Type1WinAnsi, 670, "café €5 (x) \\ end"),
	}}}}
	multi := pdfw.Doc{Name: "multi", Pages: []pdfw.Page{
		{Lines: []pdfw.Line{ln(pdfw.Type1WinAnsi, 700, "page one alpha"), ln(pdfw.TrueTypeMacRoman, 670, "È mac é one")}},
		{Lines: []pdfw.Line{ln(pdfw.TrueTypeMacRoman, 700, "page two Ø beta"), ln(pdfw.Type1WinAnsi, 670, "second • line two")}},
		{Lines: []pdfw.Line{ln(pdfw.Type1Standard, 700, "page three gamma"), ln(pdfw.Type1WinAnsi, 670, "third ü line")}},
	}}
	cid := pdfw.Doc{Name: "cid", Pages: []pdfw.Page{
		{Lines: []pdfw.Line{ln(pdfw.Type0Identity, 700, "日本語 text"), ln(pdfw.Type0Identity, 670, "Grüße \U0001F600 end")}},
		{Lines: []pdfw.Line{ln(pdfw.Type0Identity, 700, "Жз second"), ln(pdfw.Type1WinAnsi, 670, "plain tail")}},
	}}
	var longLines []pdfw.Line
	for i := 0; i < 160; i++ {
		longLines = append(longLines, pdfw.Line{Font: pdfw.Type1WinAnsi, Text: fmt.Sprintf("L%03d %s", i, lcgText(i, 56)), X: 40, Y: 780 - float64(i)*4.5, Size: 3})
	}
	long := pdfw.Doc{Name: "long", Pages: []pdfw.Page{{Lines: longLines}}}
	empty := pdfw.Doc{Name: "emptypage", Pages: []pdfw.Page{
		{Lines: []pdfw.Line{ln(pdfw.Type1WinAnsi, 700, "before the gap")}},
		{NoContents: true},
		{Lines: []pdfw.Line{ln(pdfw.Type1WinAnsi, 700, "after the gap"), ln(pdfw.Type1WinAnsi, 670, "closing line")}},
	}}
	diffs := pdfw.Doc{Name: "diffs", Pages: []pdfw.Page{{Lines: []pdfw.Line{
		ln(pdfw.Type1Differences, 700, "price € 5 • item Ω end"),
		ln(pdfw.Type1WinAnsi, 670, "AB plain Aa"),
	}}, {Lines: []pdfw.Line{ln(pdfw.Type1Differences, 700, "second • page €")}}}}
	forms := pdfw.Doc{Name: "forms", Pages: []pdfw.Page{
		{Lines: []pdfw.Line{ln(pdfw.Type1WinAnsi, 700, "page text before forms")},
			Forms: []pdfw.Form{
				{Name: "Fm0", Lines: []pdfw.Line{ln(pdfw.Type1WinAnsi, 650, "form zero é text")},
					Forms: []pdfw.Form{{Name: "Fm1", Lines: []pdfw.Line{ln(pdfw.TrueTypeMacRoman, 620, "nested inner È form")}}}},
				{Name: "Fm1", Lines: []pdfw.Line{ln(pdfw.Type1WinAnsi, 590, "page level fm1 text")}},
			}},
		{Lines: []pdfw.Line{ln(pdfw.TrueTypeMacRoman, 700, "second page Ø line")},
			Forms: []pdfw.Form{{Name: "Fm0", Matrix: [6]float64{1, 0, 0, 1, 20, -40}, Lines: []pdfw.Line{ln(pdfw.Type1WinAnsi, 650, "shifted form text")}}}},
	}}
	return []pdfw.Doc{tiny, multi, cid, long, empty, diffs, forms}
}

var digits = regexp.MustCompile(`[0-9]+`)

func normErr(err error) string {
	s := digits.ReplaceAllString(err.Error(), "N")
	if len(s) > 70 {
		s = s[:70]
	}
	return strings.ReplaceAll(s, " ", "_")
}

func run(e *harness.Env) {
	e.Rule = "7 logical documents x layout vectors over 12 dimensions (xref/objstm, filter chain, /Length placement, content split count x whitespace side x cut rotation, " +
		"page-tree depth x location of inheritable keys, revisions, numbering/file order, EOL, indirect Resources/Font/MediaBox/Contents-array objects, per-page font resource names); quick: all vectors with <=3 non-default choices, thorough: the full product; second pass per document with decoy /Resources and /MediaBox on every /Pages node above the holder of the real ones (nearest definition wins): <=2 / <=4 non-default choices; " +
		"distinct = distinct descriptors, non-trivial = at least one non-default layout choice"
	e.Assumptions = []string{"internal/gen/pdfw emits well-formed PDF (self-validated offsets/lengths; ISO 32000-1 7.5)", "x/text charmaps for WinAnsi/MacRoman byte encodings"}
	bound := 3
	if e.Thorough() {
		bound = -1
	}
	dir := harness.Scratch()
	defer os.RemoveAll(dir)
	path := filepath.Join(dir, "case.pdf")
	type pass struct {
		shadow bool
		bound  int
	}
	shadowBound := 2
	if e.Thorough() {
		shadowBound = 4
	}
	for _, d := range docs() {
		for _, ps := range []pass{{false, bound}, {true, shadowBound}} {
			d, ps := d, ps
			space := "doc=" + d.Name
			if ps.shadow {
				// second pass: every /Pages node above the holder of the inheritable keys carries decoy values
				space += " shadow=y"
			}
			e.Explore(space, ps.bound, func(c *harness.Ctx) {
				var lay pdfw.Layout
				lay.Shadow = ps.shadow
				switch c.PickS("xref", "table", "stream", "stream+objstm-all", "stream+objstm-alt") {
				case "stream":
					lay.XRef = "stream"
				case "stream+objstm-all":
					lay.XRef, lay.ObjStm = "stream", "all"
				case "stream+objstm-alt":
					lay.XRef, lay.ObjStm = "stream", "alt"
				}
				lay.Filter = c.PickS("filter", "none", "Fl", "AHx", "A85Fl", "FlPNG")
				lay.Length = c.PickS("length", "direct", "before", "after")
				switch c.PickS("split", "1", "2L", "2R", "3L", "3R") {
				case "2L":
					lay.Split, lay.SplitWS = 2, "left"
				case "2R":
					lay.Split, lay.SplitWS = 2, "right"
				case "3L":
					lay.Split, lay.SplitWS = 3, "left"
				case "3R":
					lay.Split, lay.SplitWS = 3, "right"
				}
				if lay.Split > 1 {
					lay.SplitAt = c.PickI("cut", 0, 1, 2)
				}
				switch c.PickS("depth", "1", "2", "3", "2u", "3u") {
				case "1":
					lay.Depth = 1
				case "2":
					lay.Depth = 2
				case "3":
					lay.Depth = 3
				case "2u":
					lay.Depth, lay.Unbalanced = 2, true
				case "3u":
					lay.Depth, lay.Unbalanced = 3, true
				}
				hasForms := false
				for _, p := range d.Pages {
					if len(p.Forms) > 0 {
						hasForms = true
					}
				}
				switch {
				case hasForms:
					lay.Inherit = "leaf" // forms need per-page resource dictionaries
				case lay.Depth > 1 && ps.shadow:
					lay.Inherit = c.PickS("inherit", "parent", "leaf") // nothing lies above the root
				case lay.Depth > 1:
					lay.Inherit = c.PickS("inherit", "leaf", "parent", "root")
				default:
					lay.Inherit = c.PickS("inherit", "leaf", "parent")
				}
				if lay.Inherit == "leaf" || lay.Inherit == "" {
					lay.PerPageFonts = c.PickS("fontnames", "global", "per-page") == "per-page"
				}
				lay.Revisions = c.PickI("rev", 1, 2, 3)
				lay.Order = c.PickS("order", "asc", "desc")
				lay.EOL = c.PickS("eol", "LF", "CRLF", "CR")
				lay.Indirect = c.PickS("indirect", "n", "y") == "y"
				if !c.Counted() {
					return
				}
				e.Begin(c.Desc())
				built := pdfw.Write(d, lay)
				files := map[string][]byte{"pdf": built.Bytes}
				if err := os.WriteFile(path, built.Bytes, 0o644); err != nil {
					panic(err)
				}
				var sig, det string
				psig, pdet := harness.Guard(func() { sig, det = checkFile(path, d) })
				if psig != "" {
					sig, det = psig, pdet
				}
				if sig != "" {
					c.Fail(sig, det, files)
					return
				}
				c.Pass(fmt.Sprintf("extracted:%s:pages=%d:bytes<%dk", d.Name, len(d.Pages), len(built.Bytes)/4096*4+4))
			})
		}
	}
}

func nfc(s string) string { return norm.NFC.String(s) }

// checkFile compares what tabula reports for the file with the logical document.
func checkFile(path string, d pdfw.Doc) (sig, detail string) {
	r, err := reader.Open(path)
	if err != nil {
		return "open-error:" + normErr(err), err.Error()
	}
	defer r.Close()
	n, err := r.PageCount()
	if err != nil {
		return "pagecount-error:" + normErr(err), err.Error()
	}
	if n != len(d.Pages) {
		return "pagecount-wrong", fmt.Sprintf("PageCount=%d, document has %d page leaves", n, len(d.Pages))
	}
	for i, p := range d.Pages {
		pg, err := r.GetPage(i)
		if err != nil {
			return "getpage-error:" + normErr(err), fmt.Sprintf("page %d: %v", i+1, err)
		}
		frs, err := r.ExtractTextFragments(pg)
		if err != nil {
			return "extract-error:" + normErr(err), fmt.Sprintf("page %d: %v", i+1, err)
		}
		var got, want []string
		for _, f := range frs {
			got = append(got, f.Text)
		}
		for _, l := range pdfw.FlattenPage(p) {
			want = append(want, nfc(l.Text))
		}
		if strings.Join(got, "\x1f") != strings.Join(want, "\x1f") {
			kind := "fragments-differ"
			switch {
			case len(got) < len(want):
				kind = "fragments-missing"
			case len(got) > len(want):
				kind = "fragments-extra"
			default:
				kind = "fragments-wrong-text"
			}
			return kind, fmt.Sprintf("page %d\nwant %q\ngot  %q", i+1, clip(want), clip(got))
		}
		mb, err := pg.MediaBox()
		wantMB := p.MediaBox
		if wantMB == [4]float64{} {
			wantMB = [4]float64{0, 0, 612, 792}
		}
		if err != nil {
			return "mediabox-error", fmt.Sprintf("page %d: %v", i+1, err)
		}
		if len(mb) != 4 || mb[0] != wantMB[0] || mb[1] != wantMB[1] || mb[2] != wantMB[2] || mb[3] != wantMB[3] {
			return "mediabox-wrong", fmt.Sprintf("page %d: got %v want %v", i+1, mb, wantMB)
		}
		if len(pdfw.FlattenPage(p)) > 0 {
			res, err := pg.Resources()
			if err != nil || res == nil || res.Get("Font") == nil {
				return "resources-missing", fmt.Sprintf("page %d: Resources()=%v err=%v", i+1, res, err)
			}
		}
	}
	// public API: whole document and the last page alone
	var all []string
	for _, p := range d.Pages {
		for _, l := range pdfw.FlattenPage(p) {
			all = append(all, strings.Fields(nfc(l.Text))...)
		}
	}
	txt, _, err := tabula.Open(path).Text()
	if err != nil {
		return "api-text-error:" + normErr(err), err.Error()
	}
	if g := strings.Fields(txt); strings.Join(g, " ") != strings.Join(all, " ") {
		return "api-text-differs", fmt.Sprintf("Text()\nwant %q\ngot  %q", clip(all), clip(g))
	}
	last := len(d.Pages)
	var lastWant []string
	for _, l := range pdfw.FlattenPage(d.Pages[last-1]) {
		lastWant = append(lastWant, nfc(l.Text))
	}
	frs, _, err := tabula.Open(path).Pages(last).Fragments()
	if err != nil {
		return "api-fragments-error:" + normErr(err), err.Error()
	}
	var lastGot []string
	for _, f := range frs {
		lastGot = append(lastGot, f.Text)
	}
	if strings.Join(lastGot, "\x1f") != strings.Join(lastWant, "\x1f") {
		return "api-page-fragments-differ", fmt.Sprintf("Pages(%d).Fragments()\nwant %q\ngot  %q", last, clip(lastWant), clip(lastGot))
	}
	ext := tabula.Open(path)
	pc, err := ext.PageCount()
	ext.Close()
	if err != nil || pc != len(d.Pages) {
		return "api-pagecount-wrong", fmt.Sprintf("PageCount()=%d err=%v want %d", pc, err, len(d.Pages))
	}
	return "", ""
}

func clip(s []string) []string {
	if len(s) > 8 {
		return append(append([]string{}, s[:8]...), fmt.Sprintf("… (%d more)", len(s)-8))
	}
	return s
}
