// C11 — Header/footer exclusion removes only repeated marginal text.
//
// Enumerates multi-page logical documents (pages x header kind x footer/page-number style x body variant),
// and runs them
//
//	(A) as hand-built fragment sets through layout.NewHeaderFooterDetector().Detect(...).FilterFragments(...),
//	(B) as PDFs (independent writer internal/gen/pdfw) through the public API with every page subset
//	    (all, each single page, each pair) x {ExcludeHeaders, ExcludeFooters, ExcludeHeadersAndFooters}
//	    x {Text, Lines, Paragraphs, ReadingOrder, Blocks, Analyze, Document, ToMarkdown},
//
// and compares the filtered result with the unfiltered result of the same call:
//
//  1. the filtered result is the unfiltered one minus whole lines, in the same order;
//  2. a deleted line lies within 72 pt of the top/bottom page edge AND (its digit-normalized text occurs at that
//     position on another page OR it is a page-number pattern);
//  3. body-band lines and documents without anything removable come back unchanged;
//  4. a line repeated at the same marginal position on every page, and running page numbers, are gone from every
//     requested page (documents of >= 2 pages; the mode must cover the side).
//
// model.go holds the generator and the reference predicate (written from the statement and the documented
// defaults, not from the code under test).
package main

import (
	"fmt"
	"os"
	"path/filepath"
	"sort"
	"strings"

	"github.com/tsawler/tabula"
	"github.com/tsawler/tabula/layout"
	"github.com/tsawler/tabula/model"
	"github.com/tsawler/tabula/text"
	"verif/internal/gen/pdfw"
	"verif/internal/harness"
)

func main() { harness.Main("C11", "exploration", run) }

func run(e *harness.Env) {
	e.Rule = "full product of pages P in 1..4 x header {none, same on all pages, odd/even, different on every page, same + unique sub-line sharing its prefix, 'Section n Overview', running lines identical on every page that contain one number / two adjacent numbers (year range, version) / two distant numbers / a page's own number, in the top band and (with a digit-free one) in the bottom band, a marginal line drawn twice on one page (shadow copy 1.5 pt off; unique per page / running; top and bottom), two different running items side by side in one band (left + right; top and bottom); part (B) runs these fifteen kinds on Letter pages x body {unique, numeric, numeric 80 pt from either edge}} " +
		"+ sub-space 'running line absent from some pages' {title page without the running header, a line on the first two pages only} x P in 2..6 x 3 page-number settings x body {unique, numeric} x every single page and pair; " +
		"x running page number {none, or style n | Page n | n of N | - n - (thorough: + Page n of N | n/N | p. n | pg n) printed in the bottom or top band; + 16 letter-case variants of the documented label styles (PAGE n, page n, PaGe n, n OF N, Pg. n, P.n ...), each in one band, x header {none, same} x body {unique, numeric}} " +
		"x body {unique, a line repeated at one body position, the running header's text at a body position, numeric, numeric 72/80/101 pt from the bottom or top edge, a repeated line inside the top / bottom band on one page only, " +
		"the same text inside the bottom band of every page at positions 13 pt apart}; (A) fragment sets x page size {Letter, A4, mixed} x fragment order {top-down, bottom-up} through Detect + FilterFragments on every page (exact attribution by fragment id), the same sequence a second time on the same page data, and the per-page loop Analyzer.AnalyzeWithHeaderFooterFiltering(pages, i); after every call the caller's fragment slices must equal a deep copy taken before; " +
		"(B) PDFs x page size {Letter, mixed} x requested pages {all, each single page, each pair} x {ExcludeHeaders, ExcludeFooters, ExcludeHeadersAndFooters} x {Text, Lines, Paragraphs, ReadingOrder, Blocks, Analyze, Document, ToMarkdown}, " +
		"filtered vs unfiltered result of the same call, plus selection independence: a removable-but-not-required line that the all-pages result removes (keeps) everywhere is removed (kept) in every partial selection (quick prunes (B): edge distance 80 only, top page numbers in 2 styles, no pairs of 4-page documents, single-side modes and mixed sizes on 3 APIs); " +
		"(G) per-page fragment granularity {all word-level, all character-level, page 1 character-level among line-level pages and the reverse, page 1 word-level among line-level pages and the reverse} x P in 2..3 x header {same, same+sub, different} x 3 page-number settings x body {unique, repeated line inside the top / bottom band of page 2 only}, as fragment sets and as PDFs (clause 2 read per fragment on such pages); (V) vertical placement: the running header (top) / running footer line (bottom) moved outwards until its box touches the page edge or lies 0.5 / 1 / 2 / 3 % of the page height beyond it x P in 2..3 x page number {none, n at the bottom} x body {unique, numeric} x page size {Letter, A4, mixed (fragment sets only)}, as fragment sets and as PDFs; (C) DOCX/ODT header part x footer part x 11 near-miss/equal body paragraphs x position x mode x {Text, ToMarkdown}, PPTX 1..3 slides x all 16 subsets of {ftr, sldNum, dt, hdr} placeholders x body text equal to footer / slide number x mode x {Text, ToMarkdown}. " +
		"distinct = descriptors; non-trivial = documents of >= 2 pages with a header, a page number or a non-plain body variant (office: with a header/footer part or placeholder)"
	e.Assumptions = []string{
		"internal/gen/pdfw writes one text fragment per logical line at the stated position (Helvetica 12 pt; Letter 612x792 or A4-high 612x842 pages)",
		"margin band = 72 pt, same position = within 5 pt vertically / 10 pt horizontally, page-number patterns = the ten documented ones (documented defaults / comments of layout.HeaderFooterConfig and layout.isPageNumberPattern)",
		"a fragment lies in a band when any part of its box [y, y+size] is closer than 72 pt to that page edge (boxes touching or crossing the edge included)",
		"contract read off the unchanged code for content beyond the page: a page whose highest box top exceeds the page height is measured from its content bounds by detection and filtering alike ('if maxY > pageHeight, assume inverted coordinates'), every other page (also content below y=0) from the page bounds; in both readings a running item at or beyond the edge is a repeated marginal line and is removed",
		"the unfiltered result of each API is taken as the baseline; lines an API does not report even without exclusion are not judged",
		"internal/gen/docxw, odtw, pptxw produce valid packages (header/footer parts referenced from the section / master page; placeholders by p:ph type)",
	}
	e.Note("band_pt", fmt.Sprint(bandPt))
	partA(e)
	partC(e)
	partB(e)
	partG(e)
	partV(e)
}

// inQuick prunes part (B) for the quick tier (part (A) only drops the uniform A4 size): near-band distance 80 only, no page
// pairs of 4-page documents, mixed page sizes only with three APIs / both sides / no pairs, and for the single-side
// modes only three of the eight result APIs on {all pages, last page alone} of documents of up to 3 pages.
func inQuick(P int, body bodyKind, size string, sub []int, mode, api string) bool {
	if body.off != 0 && body.off != 80 {
		return false
	}
	if size == "mixed" && (mode != "both" || len(sub) == 2 || (api != "Text" && api != "Paragraphs" && api != "Document")) {
		return false
	}
	if P == 4 && len(sub) == 2 {
		return false
	}
	if mode != "both" {
		if api != "Text" && api != "Lines" && api != "Document" {
			return false
		}
		if P == 4 || (sub != nil && sub[len(sub)-1] != P) || len(sub) == 2 {
			return false // single-side modes: all pages and the last page alone, documents of up to 3 pages
		}
	}
	return true
}

// inQuickPartial prunes the "running line absent from some pages" sub-space for the quick tier: every page subset of
// every P in 2..6, but two page-number settings, the plain body, and the single-side modes through Text only.
func inQuickPartial(pn pnKind, body bodyKind, mode, api string) bool {
	if body.name != "unique" || pn.pos == "top" {
		return false
	}
	return mode == "both" || api == "Text"
}

// inExtended: part (B) runs the digit-bearing / bottom running-line header kinds on Letter pages with the body variants
// that could interact with a misclassified running line (plain, numeric, numeric 80 pt from either edge); quick
// additionally keeps only three page-number settings.
func inExtended(thorough bool, pn pnKind, body bodyKind, size string) bool {
	if size != "letter" {
		return false
	}
	switch {
	case body.name == "unique", body.name == "numeric", body.off == 80:
	default:
		return false
	}
	if !thorough {
		return pn.style == "none" || pn.style == "n" && pn.pos == "bottom" || pn.style == "Page_n" && pn.pos == "top"
	}
	return true
}

func nontrivial(P int, hdr string, pn pnKind, body bodyKind) bool {
	return P >= 2 && (hdr != "none" || pn.style != "none" || body.name != "unique")
}

// ---- (A) fragment sets -------------------------------------------------------------------------------

// fragsOf builds the text fragments of a line by hand: one per piece, tagged with the line id in FontName.
func fragsOf(d *ldoc, l lline) []text.TextFragment {
	var o []text.TextFragment
	for i, pc := range d.pieces(l) {
		o = append(o, text.TextFragment{Text: pc.text, X: pc.x, Y: l.y, Width: textWidth(pc.text, l.h), Height: l.h, FontSize: l.h, FontName: fmt.Sprintf("%s|%d", l.id, i)})
	}
	return o
}

func lineID(f text.TextFragment) string {
	if i := strings.LastIndex(f.FontName, "|"); i >= 0 {
		return f.FontName[:i]
	}
	return f.FontName
}

// inSpace says whether (P, hdr, pn, body, size) belongs to the enumerated product: the general kinds run for
// P in 1..4; the "running line absent from some pages" kinds form their own sub-space with P in 2..6.
func inSpace(P int, hdr string, pn pnKind, body bodyKind, size string) bool {
	if pn.ext {
		// letter-case variants of the page-number labels: with and without a running header, plain and numeric body
		return P <= 4 && (hdr == "none" || hdr == "same") && (body.name == "unique" || body.name == "numeric") && size != "a4"
	}
	if !partialHdr(hdr) {
		return P <= 4
	}
	if P < 2 || size != "letter" {
		return false
	}
	if body.name != "unique" && body.name != "numeric" {
		return false
	}
	return pn.style == "none" || pn.style == "n" && pn.pos == "bottom" || pn.style == "Page_n" && pn.pos == "top"
}

const maxP = 6

func partA(e *harness.Env) {
	for P := 1; P <= maxP; P++ {
		for _, hdr := range hdrKinds {
			for _, pn := range pnKinds(e.Thorough()) {
				for _, body := range bodyKinds() {
					for _, size := range []string{"letter", "a4", "mixed"} {
						if !inSpace(P, hdr, pn, body, size) || (!e.Thorough() && size == "a4") {
							continue // quick: Letter and mixed page sizes only
						}
						for _, order := range []string{"top-down", "bottom-up"} {
							desc := harness.D("part", "frag", "P", P, "hdr", hdr, "pn", pn.style, "pnpos", pn.pos, "body", body.name, "off", body.off, "size", size, "order", order)
							if !e.Own(desc) {
								continue
							}
							e.Begin(desc)
							d := buildDoc(P, hdr, pn, body, size)
							var sig, det, out string
							psig, pdet := harness.Guard(func() { sig, det, out = checkFragments(d, order) })
							if psig != "" {
								sig, det = psig, pdet
							}
							if sig != "" {
								e.Fail(desc, sig, det, nil)
								continue
							}
							e.Pass(desc, nontrivial(P, hdr, pn, body), "frag:"+out)
						}
					}
				}
			}
		}
	}
}

// clonePages deep-copies the page data (fragments are values).
func clonePages(pages []layout.PageFragments) []layout.PageFragments {
	o := make([]layout.PageFragments, len(pages))
	for i, p := range pages {
		o[i] = p
		o[i].Fragments = append([]text.TextFragment{}, p.Fragments...)
	}
	return o
}

func samePages(a, b []layout.PageFragments) (bool, string) {
	for i := range a {
		if len(a[i].Fragments) != len(b[i].Fragments) {
			return false, fmt.Sprintf("page %d: %d fragments, before the call %d\nnow    %s\nbefore %s", i+1, len(a[i].Fragments), len(b[i].Fragments), fragList(a[i].Fragments), fragList(b[i].Fragments))
		}
		for j := range a[i].Fragments {
			if a[i].Fragments[j] != b[i].Fragments[j] {
				return false, fmt.Sprintf("page %d fragment %d: %q, before the call %q\nnow    %s\nbefore %s", i+1, j, a[i].Fragments[j].Text, b[i].Fragments[j].Text, fragList(a[i].Fragments), fragList(b[i].Fragments))
			}
		}
	}
	return true, ""
}

// checkFragments drives the detector directly on shared page data, the way a caller holding the fragments of a
// document does: (1) Detect + FilterFragments on every page, (2) the same again on the same data, (3) the documented
// per-page loop Analyzer.AnalyzeWithHeaderFooterFiltering(pages, i). The caller's fragment slices are inputs: no call
// may change them ("the result is the unfiltered result minus some fragments" - the unfiltered input stays what it was).
func checkFragments(d *ldoc, order string) (sig, detail, outcome string) {
	pages := make([]layout.PageFragments, d.P)
	byID := map[string]lline{}
	for p := 0; p < d.P; p++ {
		pf := layout.PageFragments{PageIndex: p, PageHeight: d.PHs[p], PageWidth: d.PW}
		ls := d.pages[p]
		for i := range ls {
			l := ls[i]
			if order == "bottom-up" {
				l = ls[len(ls)-1-i]
			}
			byID[l.id] = l
			pf.Fragments = append(pf.Fragments, fragsOf(d, l)...)
		}
		pages[p] = pf
	}
	orig := clonePages(pages)
	removed, keptMay := map[string]bool{}, map[string]bool{}
	anyMay := false
	for _, l := range d.all() {
		for _, pc := range d.pieces(l) {
			if !blank(pc.text) && d.mayDeletePiece(l, pc) {
				anyMay = true
			}
		}
	}
	bad := map[string]map[string]bool{} // signature stem -> classes
	var notes []string
	flag := func(stem, class, note string) {
		if bad[stem] == nil {
			bad[stem] = map[string]bool{}
		}
		bad[stem][class] = true
		notes = append(notes, stem+": "+note)
	}
	for round := 1; round <= 2; round++ {
		res := layout.NewHeaderFooterDetector().Detect(pages)
		if ok, why := samePages(pages, orig); !ok {
			return "input-mutated", fmt.Sprintf("round %d: Detect changed the caller's fragments: %s", round, why), ""
		}
		for p := 0; p < d.P; p++ {
			in := orig[p].Fragments
			out := res.FilterFragments(p, pages[p].Fragments, d.PHs[p])
			outCopy := append([]text.TextFragment{}, out...)
			if ok, why := samePages(pages, orig); !ok {
				return "input-mutated", fmt.Sprintf("round %d: FilterFragments(page %d) changed the caller's fragments: %s", round, p+1, why), ""
			}
			// 1. subsequence of unmodified fragments
			j := 0
			for _, f := range outCopy {
				for j < len(in) && in[j] != f {
					j++
				}
				if j == len(in) {
					return "not-subsequence", fmt.Sprintf("round %d page %d: filtered fragment %q (%s) is not the next unmodified input fragment\ninput  %s\noutput %s", round, p+1, f.Text, f.FontName, fragList(in), fragList(out)), ""
				}
				j++
			}
			keptIdx := map[string]bool{}
			for _, f := range outCopy {
				keptIdx[f.FontName] = true
			}
			for _, l := range d.pages[p] {
				must := d.mustDelete(l, "both")
				nonBlank, deleted, lineMay := 0, 0, true
				for i, pc := range d.pieces(l) {
					if blank(pc.text) {
						continue // a space glyph carries no text: not judged
					}
					nonBlank++
					pm := d.mayDeletePiece(l, pc)
					if !pm {
						lineMay = false
					}
					if keptIdx[fmt.Sprintf("%s|%d", l.id, i)] {
						continue
					}
					deleted++
					if !pm {
						stem := d.whyNot(l)
						if !anyMay {
							stem = "changed-without-repetition"
						}
						flag(stem, d.label(l), fmt.Sprintf("round %d page %d: fragment %q of %q at y=%.1f (band side %q, line repeated on another page=%v, fragment repeated=%v, page-number pattern=%v) was deleted", round, p+1, pc.text, l.text, l.y, d.side(l), d.repeated(l), d.pieceRepeated(l, pc), isPagePattern(pc.text)))
					}
				}
				switch {
				case must && deleted < nonBlank:
					flag(keptStem, d.label(l), mustName(l.class)+": "+fmt.Sprintf("round %d page %d: %q at y=%.1f is still present (%d of %d fragments)", round, p+1, l.text, l.y, nonBlank-deleted, nonBlank))
				case deleted == nonBlank:
					removed[d.label(l)] = true
				case deleted > 0:
					removed[d.label(l)+"(some fragments)"] = true
				case lineMay:
					keptMay[d.label(l)] = true
				}
			}
		}
		if len(bad) > 0 {
			return badSig(bad), strings.Join(notes, "\n") + "\ndetected: " + res.Summary(), ""
		}
	}
	// 3. the documented per-page loop on the same shared data
	for p := 0; p < d.P && order == "top-down"; p++ {
		base := layout.NewAnalyzer().Analyze(append([]text.TextFragment{}, orig[p].Fragments...), d.PW, d.PHs[p])
		got := layout.NewAnalyzer().AnalyzeWithHeaderFooterFiltering(pages, p)
		if ok, why := samePages(pages, orig); !ok {
			return "input-mutated", fmt.Sprintf("AnalyzeWithHeaderFooterFiltering(pages, %d) changed the caller's fragments: %s", p, why), ""
		}
		var U, F []string
		for _, el := range base.Elements {
			U = append(U, strings.Fields(el.Text)...)
		}
		for _, el := range got.Elements {
			F = append(F, strings.Fields(el.Text)...)
		}
		if sg, dt, _ := judgeTokens(d, "both", map[int]bool{p: true}, U, F, nil, true); sg != "" {
			return "per-page-loop:" + sg, fmt.Sprintf("AnalyzeWithHeaderFooterFiltering(pages, %d): %s", p, dt), ""
		}
	}
	return "", "", fmt.Sprintf("removed=%s:removable-kept=%s", joinSorted(removed), joinSorted(keptMay))
}

func mustName(class string) string {
	switch class {
	case "pagenum":
		return "running page number"
	case "ftr-same":
		return "running footer line"
	}
	return "running header line"
}

// badSig builds one stable signature from the violated clauses: the first stem in a fixed priority order plus the
// classes of the offending lines (classes are a closed alphabet, not varying data).
// keptStem is the one signature of clause 4 (a running line or running page number is still present). It carries no
// class: which of two running items of one band survives can depend on tabula's own map iteration order (regions are
// collected from a map and sorted by confidence only), and the signature of a case has to be stable across runs.
const keptStem = "kept-repeated-marginal-line"

// badSig builds one stable signature from the violated clauses: the first stem in a fixed priority order plus the
// classes of the offending lines (classes are a closed alphabet, not varying data).
func badSig(bad map[string]map[string]bool) string {
	for _, stem := range []string{"changed-without-repetition", "deleted-outside-band", "deleted-unrepeated-marginal", "deleted-unrepeated-line", "line-partially-deleted", keptStem, "selection-dependent"} {
		if c, ok := bad[stem]; ok {
			if stem == keptStem {
				return stem
			}
			return stem + ":" + joinSorted(c)
		}
	}
	var stems []string
	for stem := range bad {
		stems = append(stems, stem)
	}
	sort.Strings(stems)
	return stems[0]
}

func fragList(fs []text.TextFragment) string {
	var s []string
	for _, f := range fs {
		s = append(s, fmt.Sprintf("%q@%.0f", f.Text, f.Y))
	}
	return "[" + strings.Join(s, " ") + "]"
}

// ---- (B) PDFs through the public API -----------------------------------------------------------------

type apiFn struct {
	name string
	run  func(x *tabula.Extractor) ([]string, error)
}

var apis = []apiFn{
	{"Text", func(x *tabula.Extractor) ([]string, error) {
		t, _, err := x.Text()
		return []string{t}, err
	}},
	{"Lines", func(x *tabula.Extractor) ([]string, error) {
		ls, err := x.Lines()
		var o []string
		for _, l := range ls {
			o = append(o, l.Text)
		}
		return o, err
	}},
	{"Paragraphs", func(x *tabula.Extractor) ([]string, error) {
		ps, err := x.Paragraphs()
		var o []string
		for _, p := range ps {
			o = append(o, p.Text)
		}
		return o, err
	}},
	{"ReadingOrder", func(x *tabula.Extractor) ([]string, error) {
		r, err := x.ReadingOrder()
		var o []string
		if r != nil {
			for _, f := range r.Fragments {
				o = append(o, f.Text)
			}
		}
		return o, err
	}},
	{"Blocks", func(x *tabula.Extractor) ([]string, error) {
		bs, err := x.Blocks()
		var o []string
		for _, b := range bs {
			for _, f := range b.Fragments {
				o = append(o, f.Text)
			}
		}
		return o, err
	}},
	{"Analyze", func(x *tabula.Extractor) ([]string, error) {
		r, err := x.Analyze()
		var o []string
		if r != nil {
			for _, el := range r.Elements {
				o = append(o, el.Text)
			}
		}
		return o, err
	}},
	{"Document", func(x *tabula.Extractor) ([]string, error) {
		doc, _, err := x.Document()
		var o []string
		if doc != nil {
			for _, pg := range doc.Pages {
				for _, el := range pg.Elements {
					switch v := el.(type) {
					case *model.Heading:
						o = append(o, v.Text)
					case *model.Paragraph:
						o = append(o, v.Text)
					case *model.List:
						for _, it := range v.Items {
							o = append(o, it.Bullet+" "+it.Text)
						}
					default:
						o = append(o, fmt.Sprintf("<%T>", el))
					}
				}
			}
		}
		return o, err
	}},
	{"ToMarkdown", func(x *tabula.Extractor) ([]string, error) {
		md, _, err := x.ToMarkdown()
		return []string{md}, err
	}},
}

func subsets(P int) [][]int {
	o := [][]int{nil} // nil = no Pages() call
	for a := 1; a <= P; a++ {
		o = append(o, []int{a})
	}
	for a := 1; a <= P; a++ {
		for b := a + 1; b <= P; b++ {
			o = append(o, []int{a, b})
		}
	}
	return o
}

func subsetName(s []int) string {
	if s == nil {
		return "all"
	}
	return strings.ReplaceAll(strings.Trim(fmt.Sprint(s), "[]"), " ", ",")
}

func withMode(x *tabula.Extractor, mode string) *tabula.Extractor {
	switch mode {
	case "headers":
		return x.ExcludeHeaders()
	case "footers":
		return x.ExcludeFooters()
	case "both":
		return x.ExcludeHeadersAndFooters()
	}
	return x
}

func pdfOf(d *ldoc) []byte {
	var doc pdfw.Doc
	doc.Name = "c11"
	for p, ls := range d.pages {
		var pg pdfw.Page
		if d.PHs[p] != 792 {
			pg.MediaBox = [4]float64{0, 0, d.PW, d.PHs[p]}
		}
		for _, l := range ls {
			for _, pc := range d.pieces(l) {
				pg.Lines = append(pg.Lines, pdfw.Line{Font: pdfw.Type1WinAnsi, Text: pc.text, X: pc.x, Y: l.y, Size: l.h})
			}
		}
		doc.Pages = append(doc.Pages, pg)
	}
	return pdfw.Write(doc, pdfw.Layout{}).Bytes
}

type refRun struct {
	u, f []string
	ok   bool
}

var refCache map[string]*refRun

func partB(e *harness.Env) {
	dir := harness.Scratch()
	defer os.RemoveAll(dir)
	path := filepath.Join(dir, "doc.pdf")
	for P := 1; P <= maxP; P++ {
		for _, hdr := range hdrKinds {
			for _, pn := range pnKinds(e.Thorough()) {
				for _, body := range bodyKinds() {
					for _, size := range []string{"letter", "mixed"} {
						if !inSpace(P, hdr, pn, body, size) {
							continue
						}
						var d *ldoc
						var data []byte
						written := false
						refCache = map[string]*refRun{} // all-pages reference results of this document, per mode and API
						for _, sub := range subsets(P) {
							for _, mode := range []string{"headers", "footers", "both"} {
								for _, api := range apis {
									if extendedHdr(hdr) && !inExtended(e.Thorough(), pn, body, size) {
										continue
									}
									if pn.ext && (size != "letter" || !e.Thorough() && body.name != "unique") {
										continue
									}
									if !e.Thorough() && !partialHdr(hdr) && !inQuick(P, body, size, sub, mode, api.name) {
										continue
									}
									if !e.Thorough() && partialHdr(hdr) && !inQuickPartial(pn, body, mode, api.name) {
										continue
									}
									desc := harness.D("part", "pdf", "P", P, "hdr", hdr, "pn", pn.style, "pnpos", pn.pos, "body", body.name, "off", body.off, "size", size, "pages", subsetName(sub), "mode", mode, "api", api.name)
									if !e.Own(desc) {
										continue
									}
									e.Begin(desc)
									if d == nil {
										d = buildDoc(P, hdr, pn, body, size)
										data = pdfOf(d)
									}
									if !written {
										if err := os.WriteFile(path, data, 0o644); err != nil {
											panic(err)
										}
										written = true
									}
									var sig, det, out string
									psig, pdet := harness.Guard(func() { sig, det, out = checkPDF(d, path, sub, mode, api) })
									if psig != "" {
										sig, det = psig, pdet
									}
									if sig != "" {
										e.Fail(desc, sig, det, map[string][]byte{"input.pdf": data})
										continue
									}
									e.Pass(desc, nontrivial(P, hdr, pn, body), out)
								}
							}
						}
					}
				}
			}
		}
	}
}

// segment cuts a token stream into logical lines (longest match at every position). ok=false when some token
// run is not a whole logical line.
func segment(toks []string, keys [][]string) (lines []string, ok bool, at int) {
	i := 0
	for i < len(toks) {
		best := -1
		for k, key := range keys {
			if len(key) <= len(toks)-i && (best < 0 || len(key) > len(keys[best])) {
				m := true
				for j := range key {
					if toks[i+j] != key[j] {
						m = false
						break
					}
				}
				if m {
					best = k
				}
			}
		}
		if best < 0 {
			return lines, false, i
		}
		lines = append(lines, strings.Join(keys[best], " "))
		i += len(keys[best])
	}
	return lines, true, 0
}

func isSubseq(sub, full []string) bool {
	j := 0
	for _, s := range sub {
		for j < len(full) && full[j] != s {
			j++
		}
		if j == len(full) {
			return false
		}
		j++
	}
	return true
}

func chars(toks []string) []string {
	var o []string
	for _, t := range toks {
		for _, r := range t {
			o = append(o, string(r))
		}
	}
	return o
}

func toks(units []string) []string {
	var o []string
	for _, u := range units {
		o = append(o, strings.Fields(u)...)
	}
	return o
}

func clip(s string) string {
	if len(s) > 700 {
		return s[:700] + "…"
	}
	return s
}

func checkPDF(d *ldoc, path string, sub []int, mode string, api apiFn) (sig, detail, outcome string) {
	open := func() *tabula.Extractor {
		x := tabula.Open(path)
		if sub != nil {
			x = x.Pages(sub...)
		}
		return x
	}
	uUnits, err := api.run(open())
	if err != nil {
		return "baseline-error", "unfiltered " + api.name + ": " + err.Error(), ""
	}
	fUnits, err := api.run(withMode(open(), mode))
	if err != nil {
		return "error-with-exclusion", api.name + " with exclusion " + mode + ": " + err.Error(), ""
	}
	U, F := toks(uUnits), toks(fUnits)

	// logical lines of the requested pages
	req := map[int]bool{}
	if sub == nil {
		for p := 0; p < d.P; p++ {
			req[p] = true
		}
	}
	for _, p := range sub {
		req[p-1] = true
	}
	var ref func() ([]string, []string, bool)
	if len(req) < d.P {
		// reference for the selection-independence clause: the same call on all pages
		ref = func() ([]string, []string, bool) {
			k := mode + "/" + api.name
			if r := refCache[k]; r != nil {
				return r.u, r.f, r.ok
			}
			r := &refRun{}
			refCache[k] = r
			ua, err := api.run(tabula.Open(path))
			if err != nil {
				return nil, nil, false
			}
			fa, err := api.run(withMode(tabula.Open(path), mode))
			if err != nil {
				return nil, nil, false
			}
			r.u, r.f, r.ok = toks(ua), toks(fa), true
			return r.u, r.f, true
		}
	}
	return judgeTokens(d, mode, req, U, F, ref, false)
}

// judgeTokens compares the token sequence F of a filtered result with the token sequence U of the unfiltered result
// of the same call on the pages req. ref (optional) yields the unfiltered / filtered token sequences of the same call
// on ALL pages; it is used for the selection-independence clause: whether a removable line is removed is a property
// of the document ("repeats across pages" of the document), so a line that the all-pages result removes everywhere
// (keeps everywhere) must be removed (kept) in every partial selection as well.
func judgeTokens(d *ldoc, mode string, req map[int]bool, U, F []string, ref func() ([]string, []string, bool), orderFree bool) (sig, detail, outcome string) {
	exp := d.expectations(mode, req)
	var keys [][]string
	seen := map[string]bool{}
	anyMay := false
	for _, l := range d.all() {
		if !req[l.page] {
			continue
		}
		if exp[l.text].may > 0 {
			anyMay = true
		}
		if !seen[l.text] {
			seen[l.text] = true
			keys = append(keys, strings.Fields(l.text))
		}
	}
	show := func() string {
		return fmt.Sprintf("unfiltered: %q\nfiltered:   %q", clip(strings.Join(U, " ")), clip(strings.Join(F, " ")))
	}
	// 1. same order, only deletions. Decided on the character sequence without white space: some APIs glue
	// neighbouring lines without a separator (Analyze renders "- 1 -" + next line as "- 1 -next"), which is not
	// this property's business but changes token boundaries when a line disappears.
	// orderFree (per-page loop of part A only): the order clause is decided exactly, by fragment id, on the
	// FilterFragments results; the layout analysis that follows may legitimately order a different fragment set
	// differently (column detection), so only the per-line counts are judged there.
	// The order verdict is reported AFTER the count clauses 2-4: when a wrong set of lines survives, the layout
	// analysis may also order the survivors differently, and the cause (which lines) is the stable signature.
	notSub := !orderFree && !isSubseq(chars(F), chars(U))
	for p := range req {
		if d.granOf(p) != 'L' {
			// word- or character-level page: clause 2 is read per fragment, so a line may lose some of its words.
			// The order clause is not judged through the layout-analysing APIs here: tabula's reading order of
			// per-glyph fragments depends on which lines are present (a surviving sub-line moves from the end to
			// the front), which is layout analysis, not exclusion; FilterFragments' own order is judged exactly,
			// by fragment id, on the same documents in the fragment-set runs.
			return checkTokens(d, mode, req, U, F, show)
		}
	}
	uLines, okU, _ := segment(U, keys)
	fLines, okF, at := segment(F, keys)
	if !okU || !okF {
		if notSub {
			return "not-subsequence", "the filtered output (white space ignored) is not a subsequence of the unfiltered one\n" + show(), ""
		}
		if !okU || (!orderFree && !isSubseq(F, U)) {
			// The API itself rewrites some line (ToMarkdown turns a leading number into list markup, ...): that is not
			// this property's business. Fall back to the token-level form of clauses 2-4.
			return checkTokens(d, mode, req, U, F, show)
		}
		return "line-partially-deleted", fmt.Sprintf("the filtered output is not the unfiltered output minus whole lines (token %d)\n%s", at, show()), ""
	}
	cU, cF := map[string]int{}, map[string]int{}
	for _, l := range uLines {
		cU[l]++
	}
	for _, l := range fLines {
		cF[l]++
	}
	bad := map[string]map[string]bool{}
	var notes []string
	removed, keptMay := map[string]bool{}, map[string]bool{}
	partial, otherSide := false, false
	// reference counts of the all-pages result (lazily: only when some requested line is removable but not required)
	var refU, refF map[string]int
	var refExp map[string]*expect
	refState := 0 // 0 not tried, 1 usable, -1 not usable
	loadRef := func() bool {
		if refState != 0 || ref == nil {
			return refState == 1
		}
		refState = -1
		ua, fa, ok := ref()
		if !ok {
			return false
		}
		refExp = d.expectations(mode, nil)
		var allKeys [][]string
		seenAll := map[string]bool{}
		for _, l := range d.all() {
			if !seenAll[l.text] {
				seenAll[l.text] = true
				allKeys = append(allKeys, strings.Fields(l.text))
			}
		}
		ul, ok1, _ := segment(ua, allKeys)
		fl, ok2, _ := segment(fa, allKeys)
		if !ok1 || !ok2 {
			return false
		}
		refU, refF = map[string]int{}, map[string]int{}
		for _, l := range ul {
			refU[l]++
		}
		for _, l := range fl {
			refF[l]++
		}
		refState = 1
		return true
	}
	// lines that are optional only because the single-side mode does not cover their band are left out of the
	// selection-independence clause (the both-sides mode judges them through clause 4 on every selection anyway)
	var expBoth map[string]*expect
	optionalInEveryMode := func(t string) bool {
		if mode == "both" {
			return true
		}
		if expBoth == nil {
			expBoth = d.expectations("both", req)
		}
		return expBoth[t] != nil && expBoth[t].must == 0
	}
	for _, key := range keys {
		t := strings.Join(key, " ")
		x := exp[t]
		if cU[t] < x.n {
			// the API does not report (every instance of) this line even without exclusion, e.g. Blocks() never
			// reports a lone short page number: nothing to compare for that line
			partial = true
			continue
		}
		del := cU[t] - cF[t]
		flag := func(stem, class, note string) {
			if bad[stem] == nil {
				bad[stem] = map[string]bool{}
			}
			bad[stem][class] = true
			notes = append(notes, stem+": "+note)
		}
		may, must := x.may, x.must
		if cU[t] > x.n {
			// the API reports the line more than once per instance (Document() lists a detected heading or list item
			// also as a paragraph): judge only the clear-cut cases
			switch {
			case x.may == 0:
			case x.may == x.n:
				may = cU[t]
			default:
				continue
			}
			if x.must == x.n {
				must = cU[t]
			} else {
				must = 0
			}
		}
		if del > may {
			stem := x.why
			if !anyMay {
				stem = "changed-without-repetition"
			}
			flag(stem, x.class, fmt.Sprintf("line %q (class %s): %d of %d instances deleted, %d removable", t, x.class, del, cU[t], may))
		}
		if del < must {
			flag(keptStem, x.mustClass, mustName(x.mustClass)+": "+fmt.Sprintf("line %q: %d of %d instances deleted, %d have to go", t, del, cU[t], must))
		}
		// selection independence: every instance of this text is removable but none is required; the all-pages
		// result treats all its instances alike -> the partial selection has to treat them the same way
		if ref != nil && cU[t] == x.n && x.may == x.n && x.must == 0 && optionalInEveryMode(t) && loadRef() {
			if ra := refExp[t]; ra != nil && refU[t] == ra.n && ra.n > 0 {
				delAll := refU[t] - refF[t]
				switch {
				case delAll == 0 && del > 0:
					flag("selection-dependent", x.class, fmt.Sprintf("line %q is kept on every page when all pages are requested, but %d of %d instances are deleted for this selection", t, del, cU[t]))
				case delAll == refU[t] && del < cU[t]:
					flag("selection-dependent", x.class, fmt.Sprintf("line %q is removed from every page when all pages are requested, but only %d of %d instances are deleted for this selection", t, del, cU[t]))
				}
			}
		}
		x = &expect{n: x.n, may: may, must: must, why: x.why, class: x.class, mustClass: x.mustClass, mayClass: x.mayClass, maySide: x.maySide}
		if del > 0 && del <= x.may {
			removed[x.mayClassOr()] = true
			if mode == "headers" && x.maySide == "bottom" || mode == "footers" && x.maySide == "top" {
				otherSide = true // allowed by the statement (marginal + repeated); recorded as an observation only
			}
		}
		if del < x.may {
			keptMay[x.mayClassOr()] = true
		}
	}
	if len(bad) > 0 {
		return badSig(bad), strings.Join(notes, "\n") + "\n" + show(), ""
	}
	if notSub {
		return "not-subsequence", "the filtered output (white space ignored) is not a subsequence of the unfiltered one\n" + show(), ""
	}
	if !orderFree && !isSubseq(fLines, uLines) {
		return "not-subsequence", "the filtered output holds the surviving lines in another order than the unfiltered output\n" + show(), ""
	}
	kind := "pdf"
	if partial {
		kind = "pdf-api-drops-lines-unfiltered"
	}
	if otherSide {
		kind += "(single-side mode also removed the other side)"
	}
	return "", "", fmt.Sprintf("%s:removed=%s:removable-kept=%s", kind, joinSorted(removed), joinSorted(keptMay))
}

// checkTokens is the token-level form of the oracle, used when the unfiltered output of an API is not a plain
// sequence of the document's lines. For every token of the document's lines: the drop of its count is at most the
// number of removable line instances that contain it and, when the unfiltered output holds all its instances, at
// least the number of must-delete instances that contain it.
func checkTokens(d *ldoc, mode string, req map[int]bool, U, F []string, show func() string) (sig, detail, outcome string) {
	type owner struct {
		n, may, must          int
		why, class, mustClass string
		mayClass              string
	}
	own := map[string]*owner{}
	var order []string
	anyMay := false
	for _, l := range d.all() {
		if !req[l.page] {
			continue
		}
		must := d.mustDelete(l, mode)
		for i, t := range strings.Fields(l.text) {
			o := own[t]
			if o == nil {
				o = &owner{}
				own[t] = o
				order = append(order, t)
			}
			o.n++
			if d.wordMay(l)[i] {
				o.may++
				o.mayClass = d.label(l)
				anyMay = true
			} else {
				w := d.whyNot(l)
				if o.why != "" && o.why != w {
					w = "deleted-unrepeated-line"
				}
				o.why, o.class = w, d.label(l)
			}
			if must {
				o.must++
				o.mustClass = l.class
			}
		}
	}
	cU, cF := map[string]int{}, map[string]int{}
	for _, t := range U {
		cU[t]++
	}
	for _, t := range F {
		cF[t]++
	}
	bad := map[string]map[string]bool{}
	var notes []string
	removed := map[string]bool{}
	flag := func(stem, class, note string) {
		if bad[stem] == nil {
			bad[stem] = map[string]bool{}
		}
		bad[stem][class] = true
		notes = append(notes, stem+": "+note)
	}
	for _, t := range order {
		o := own[t]
		del := cU[t] - cF[t]
		if del > o.may {
			stem := o.why
			if !anyMay {
				stem = "changed-without-repetition"
			}
			flag(stem, o.class, fmt.Sprintf("token %q (line class %s): count dropped by %d, %d removable instances", t, o.class, del, o.may))
		}
		if cU[t] >= o.n && del < o.must {
			flag(keptStem, o.mustClass, mustName(o.mustClass)+": "+fmt.Sprintf("token %q: count dropped by %d, %d instances have to go", t, del, o.must))
		}
		if del > 0 && del <= o.may {
			removed[o.mayClass] = true
		}
	}
	if len(bad) > 0 {
		return badSig(bad), strings.Join(notes, "\n") + "\n" + show(), ""
	}
	return "", "", "pdf-token-level:removed=" + joinSorted(removed)
}

// ---- (G) per-page fragment granularity -------------------------------------------------------------
//
// The same documents with word-level or character-level fragments on some or all pages (a character-level page has
// one fragment per glyph, spaces included; a word-level page one fragment per word with its trailing space), crossed
// with the kinds that put unique text inside the band. Run as fragment sets (like part A) and as PDFs (like part B).
func partG(e *harness.Env) {
	dir := harness.Scratch()
	defer os.RemoveAll(dir)
	path := filepath.Join(dir, "gran.pdf")
	pns := []pnKind{{"none", "-", false}, {"n", "bottom", false}, {"Page_n", "top", false}}
	bodies := []bodyKind{{"unique", 0}, {"rep-band-top", 0}, {"rep-band-bottom", 0}}
	quickAPIs := map[string]bool{"Text": true, "Analyze": true, "Document": true}
	for P := 2; P <= 3; P++ {
		for _, gran := range granKinds {
			for _, hdr := range []string{"same", "same+sub", "different"} {
				for _, pn := range pns {
					for _, body := range bodies {
						for _, order := range []string{"top-down", "bottom-up"} {
							if !e.Thorough() && order != "top-down" {
								continue
							}
							desc := harness.D("part", "frag", "P", P, "hdr", hdr, "pn", pn.style, "pnpos", pn.pos, "body", body.name, "off", body.off, "size", "letter", "order", order, "gran", gran)
							if !e.Own(desc) {
								continue
							}
							e.Begin(desc)
							d := buildDoc(P, hdr, pn, body, "letter")
							d.setGran(gran)
							var sig, det, out string
							psig, pdet := harness.Guard(func() { sig, det, out = checkFragments(d, order) })
							if psig != "" {
								sig, det = psig, pdet
							}
							if sig != "" {
								e.Fail(desc, sig, det, nil)
								continue
							}
							e.Pass(desc, true, "frag-gran:"+out)
						}
						var d *ldoc
						var data []byte
						written := false
						refCache = map[string]*refRun{}
						for _, sub := range subsets(P) {
							for _, mode := range []string{"headers", "footers", "both"} {
								for _, api := range apis {
									if !e.Thorough() && (mode != "both" || !quickAPIs[api.name] || len(sub) == 2) {
										continue // quick: both sides, three APIs, all pages and single pages
									}
									desc := harness.D("part", "pdf", "P", P, "hdr", hdr, "pn", pn.style, "pnpos", pn.pos, "body", body.name, "off", body.off, "size", "letter", "pages", subsetName(sub), "mode", mode, "api", api.name, "gran", gran)
									if !e.Own(desc) {
										continue
									}
									e.Begin(desc)
									if d == nil {
										d = buildDoc(P, hdr, pn, body, "letter")
										d.setGran(gran)
										data = pdfOf(d)
									}
									if !written {
										if err := os.WriteFile(path, data, 0o644); err != nil {
											panic(err)
										}
										written = true
									}
									var sig, det, out string
									psig, pdet := harness.Guard(func() { sig, det, out = checkPDF(d, path, sub, mode, api) })
									if psig != "" {
										sig, det = psig, pdet
									}
									if sig != "" {
										e.Fail(desc, sig, det, map[string][]byte{"input.pdf": data})
										continue
									}
									e.Pass(desc, true, "gran-"+out)
								}
							}
						}
					}
				}
			}
		}
	}
}

// ---- (V) vertical placement of the running items ---------------------------------------------------------
//
// The running header (top band) or running footer line (bottom band) is moved outwards until its box touches the
// page edge or lies 0.5 / 1 / 2 / 3 % of the page height beyond it. Contract of the unchanged code (comments of
// extractCandidates / FilterFragments): a page whose content reaches above the page height is measured from its content
// bounds ("inverted coordinates") by detection AND filtering alike, any other page from the page bounds; in both
// readings the running items sit at distance < 72 pt of the reference edge, so they are repeated marginal lines and
// have to go, and nothing else may.
func partV(e *harness.Env) {
	dir := harness.Scratch()
	defer os.RemoveAll(dir)
	path := filepath.Join(dir, "vpos.pdf")
	pns := []pnKind{{"none", "-", false}, {"n", "bottom", false}}
	bodies := []bodyKind{{"unique", 0}, {"numeric", 0}}
	quickAPIs := map[string]bool{"Text": true, "Lines": true, "Document": true}
	for P := 2; P <= 3; P++ {
		for _, item := range []struct{ hdr, side string }{{"same", "top"}, {"bottom-same", "bottom"}} {
			for _, vp := range vposKinds {
				for _, pn := range pns {
					for _, body := range bodies {
						for _, size := range []string{"letter", "a4", "mixed"} {
							build := func() *ldoc {
								d := buildDoc(P, item.hdr, pn, body, size)
								d.shiftBand(item.side, vp.frac)
								return d
							}
							for _, order := range []string{"top-down", "bottom-up"} {
								desc := harness.D("part", "frag", "P", P, "hdr", item.hdr, "pn", pn.style, "pnpos", pn.pos, "body", body.name, "off", body.off, "size", size, "order", order, "vpos", vp.name)
								if !e.Own(desc) {
									continue
								}
								e.Begin(desc)
								d := build()
								var sig, det, out string
								psig, pdet := harness.Guard(func() { sig, det, out = checkFragments(d, order) })
								if psig != "" {
									sig, det = psig, pdet
								}
								if sig != "" {
									e.Fail(desc, sig, det, nil)
									continue
								}
								e.Pass(desc, true, "frag-vpos:"+out)
							}
							if size == "mixed" {
								continue // PDFs: both uniform page sizes
							}
							var d *ldoc
							var data []byte
							written := false
							refCache = map[string]*refRun{}
							for _, sub := range subsets(P) {
								for _, mode := range []string{"headers", "footers", "both"} {
									for _, api := range apis {
										if !e.Thorough() && (mode != "both" || !quickAPIs[api.name] || len(sub) == 2) {
											continue
										}
										desc := harness.D("part", "pdf", "P", P, "hdr", item.hdr, "pn", pn.style, "pnpos", pn.pos, "body", body.name, "off", body.off, "size", size, "pages", subsetName(sub), "mode", mode, "api", api.name, "vpos", vp.name)
										if !e.Own(desc) {
											continue
										}
										e.Begin(desc)
										if d == nil {
											d = build()
											data = pdfOf(d)
										}
										if !written {
											if err := os.WriteFile(path, data, 0o644); err != nil {
												panic(err)
											}
											written = true
										}
										var sig, det, out string
										psig, pdet := harness.Guard(func() { sig, det, out = checkPDF(d, path, sub, mode, api) })
										if psig != "" {
											sig, det = psig, pdet
										}
										if sig != "" {
											e.Fail(desc, sig, det, map[string][]byte{"input.pdf": data})
											continue
										}
										e.Pass(desc, true, "vpos-"+out)
									}
								}
							}
						}
					}
				}
			}
		}
	}
}
