package main

import (
	"fmt"
	"sort"
	"strings"
)

// ---- pinned constants (documented defaults of layout.HeaderFooterConfig) ----------------------
//
// layout/header_footer.go documents: HeaderRegionHeight / FooterRegionHeight "Default: 72 points
// (1 inch)", PositionTolerance "Default: 5 points", XPositionTolerance "Default: 10 points",
// MinPages "Default: 2". The oracle uses these documented values, never the values the code computes.
const (
	bandPt  = 72.0 // margin band: within 72 pt of the page's top or bottom edge
	posTolY = 5.0  // "same position": vertical distance from the edge differs by at most 5 pt
	posTolX = 10.0 // "same position": x differs by at most 10 pt
)

// documented page-number patterns (digits normalized to '#'), the comment list of layout.isPageNumberPattern
var pagePatterns = []string{"#", "page #", "- # -", "# of #", "page # of #", "#/#", "p. #", "p.#", "pg #", "pg. #"}

// lline is one logical line of a generated document (= one shown string = one text fragment).
type lline struct {
	id    string // unique in the document
	text  string
	x, y  float64 // baseline origin, PDF user space (y grows upwards)
	h     float64 // font size = fragment height
	class string  // hdr-same | ftr-same | hdr-part | hdr-minority | ftr-diff | hdr-odd | hdr-even | hdr-diff | hdr-sub | hdr-numbered | pagenum | body | body-rep | body-hdrtext | body-num | body-num-near | body-rep-band | body-rep-moving
	page  int     // 0-based
}

type ldoc struct {
	P     int
	PW    float64
	PHs   []float64 // page heights
	pages [][]lline // top-down order on each page
	gran  []byte    // fragment granularity per page: 'L' one fragment per line (default), 'W' per word, 'C' per glyph
	rep   int       // cache of hasRepetition: 0 unknown, 1 yes, -1 no
}

func (d *ldoc) all() []lline {
	var o []lline
	for _, p := range d.pages {
		o = append(o, p...)
	}
	return o
}

// normDigits replaces every maximal run of ASCII digits by '#'.
func normDigits(s string) string {
	var b strings.Builder
	in := false
	for _, r := range s {
		if r >= '0' && r <= '9' {
			if !in {
				b.WriteByte('#')
				in = true
			}
			continue
		}
		in = false
		b.WriteRune(r)
	}
	return b.String()
}

func isPagePattern(text string) bool {
	n := strings.ToLower(strings.TrimSpace(normDigits(strings.TrimSpace(text))))
	for _, p := range pagePatterns {
		if n == p {
			return true
		}
	}
	return false
}

// side says in which margin band the line lies ("" = body band). A fragment lies in a band when any
// part of its box [y, y+h] is closer than 72 pt to that edge of its page (weakest reading of "lies in").
func (d *ldoc) side(l lline) string {
	if d.PHs[l.page]-(l.y+l.h) < bandPt {
		return "top"
	}
	if l.y < bandPt {
		return "bottom"
	}
	return ""
}

func (d *ldoc) edgeDist(l lline, side string) float64 {
	if side == "top" {
		return d.PHs[l.page] - (l.y + l.h)
	}
	return l.y
}

func absf(x float64) float64 {
	if x < 0 {
		return -x
	}
	return x
}

// repeated: the digit-normalized text occurs at the same marginal position on at least one other page.
func (d *ldoc) repeated(l lline) bool {
	s := d.side(l)
	if s == "" {
		return false
	}
	n := normDigits(strings.TrimSpace(l.text))
	for _, o := range d.all() {
		if o.page == l.page || d.side(o) != s {
			continue
		}
		if normDigits(strings.TrimSpace(o.text)) != n {
			continue
		}
		if absf(d.edgeDist(o, s)-d.edgeDist(l, s)) <= posTolY && absf(o.x-l.x) <= posTolX {
			return true
		}
	}
	return false
}

// mayDelete is clause 2 of the statement: in a margin band AND (repeats at that position across pages OR page-number pattern).
func (d *ldoc) mayDelete(l lline) bool {
	if !d.hasRepetition() {
		return false // clause 3: documents without repetition (1-page documents in particular) come back unchanged
	}
	return d.side(l) != "" && (d.repeated(l) || isPagePattern(l.text))
}

// hasRepetition: some marginal line repeats at its position on another page.
func (d *ldoc) hasRepetition() bool {
	if d.rep == 0 {
		d.rep = -1
	scan:
		for _, l := range d.all() {
			if d.repeated(l) {
				d.rep = 1
				break
			}
			if d.granOf(l.page) != 'L' {
				for _, pc := range d.pieces(l) {
					if !blank(pc.text) && d.pieceRepeated(l, pc) {
						d.rep = 1
						break scan
					}
				}
			}
		}
	}
	return d.rep > 0
}

// whyNot classifies a forbidden deletion.
func (d *ldoc) whyNot(l lline) string {
	if d.side(l) == "" {
		return "deleted-outside-band"
	}
	return "deleted-unrepeated-marginal"
}

// mustDelete is clause 4: a line repeated at the same marginal position on every page, and running page numbers,
// in a document of at least two pages, when the exclusion mode covers the side it is on.
func (d *ldoc) mustDelete(l lline, mode string) bool {
	if d.P < 2 {
		return false
	}
	switch l.class {
	case "hdr-same":
		return mode == "headers" || mode == "both"
	case "ftr-same":
		return mode == "footers" || mode == "both"
	case "pagenum": // the running page number: a footer when printed at the bottom, part of the header when printed at the top
		if d.side(l) == "top" {
			return mode == "headers" || mode == "both"
		}
		return mode == "footers" || mode == "both"
	}
	return false
}

// ---- generator ---------------------------------------------------------------------------------

var hdrKinds = []string{"none", "same", "oddeven", "different", "same+sub", "numbered",
	// running lines that are identical on every page and contain digits (top band) ...
	"same-1num", "same-2adj", "same-version", "same-2far", "same-pageno",
	// ... and running lines in the bottom band (below the page number), without and with digits
	"bottom-same", "bottom-1num", "bottom-2adj", "bottom-2far", "bottom-pageno",
	// a marginal line drawn twice on the same page (shadow copy 1.5 pt to the right and below): without and with
	// repetition across pages, top and bottom band
	"different+shadow", "same+shadow", "bottom-different+shadow",
	// two different running items side by side in one band: title left + document code right
	"same+right", "bottom-same+right",
	// running line absent from some pages (own sub-space, P in 2..6): a title page without the running header;
	// a line on the first two pages only
	"same-not-first", "minority"}

func shadowHdr(hdr string) bool { return strings.HasSuffix(hdr, "+shadow") }

// partialHdr: header kinds of the "absent from some pages" sub-space.
func partialHdr(hdr string) bool { return hdr == "same-not-first" || hdr == "minority" }

// runLines: text of the running line of the digit-bearing / bottom header kinds. All are plain repeated lines:
// one number, two adjacent numbers (year range, version), two numbers far apart, a number equal to a page's number.
var runLines = map[string]string{
	"same-1num":     "Annual Report 2024",
	"same-2adj":     "Annual Report 2023-2024",
	"same-version":  "Tabula Handbook v1.2",
	"same-2far":     "Release 2019 Build 4077",
	"same-pageno":   "Chapter 2 Summary",
	"bottom-same":   "Acme Internal Memo",
	"bottom-1num":   "Copyright 2024 Acme",
	"bottom-2adj":   "Fiscal Year 2023-2024",
	"bottom-2far":   "Form 8812 Rev 2019",
	"bottom-pageno": "Appendix 1 Draft",
}

// extendedHdr: header kinds added after the first version; part (B) runs them on a reduced body / size product.
func extendedHdr(hdr string) bool {
	_, ok := runLines[hdr]
	return ok || shadowHdr(hdr) || strings.HasSuffix(hdr, "+right")
}

type pnKind struct {
	style, pos string
	ext        bool // letter-case variant of a documented label style: enumerated on a reduced product
}

// pnFormats: page-number styles (%[1]d = page number, %[2]d = page count). The first group are the documented
// spellings; the second group the same label styles in another letter case (the documented matching is
// case-insensitive), plus the two documented spellings "pg. n" and "p.n", each printed in one band.
var pnFormats = map[string]string{
	"n": "%[1]d", "Page_n": "Page %[1]d", "n_of_N": "%[1]d of %[2]d", "-_n_-": "- %[1]d -",
	"Page_n_of_N": "Page %[1]d of %[2]d", "n/N": "%[1]d/%[2]d", "p._n": "p. %[1]d", "pg_n": "pg %[1]d",

	"PAGE_n": "PAGE %[1]d", "page_n": "page %[1]d", "PaGe_n": "PaGe %[1]d",
	"n_OF_N": "%[1]d OF %[2]d", "n_Of_N": "%[1]d Of %[2]d",
	"PAGE_n_OF_N": "PAGE %[1]d OF %[2]d", "page_n_of_n": "page %[1]d of %[2]d", "Page_n_Of_N": "Page %[1]d Of %[2]d",
	"P._n": "P. %[1]d", "PG_n": "PG %[1]d", "Pg_n": "Pg %[1]d",
	"pg._n": "pg. %[1]d", "Pg._n": "Pg. %[1]d", "PG._n": "PG. %[1]d",
	"p.n": "p.%[1]d", "P.n": "P.%[1]d",
}

var pnCaseVariants = []pnKind{
	{"PAGE_n", "bottom", true}, {"page_n", "top", true}, {"PaGe_n", "top", true},
	{"n_OF_N", "bottom", true}, {"n_Of_N", "top", true},
	{"PAGE_n_OF_N", "bottom", true}, {"page_n_of_n", "bottom", true}, {"Page_n_Of_N", "top", true},
	{"P._n", "bottom", true}, {"PG_n", "bottom", true}, {"Pg_n", "top", true},
	{"pg._n", "top", true}, {"Pg._n", "bottom", true}, {"PG._n", "top", true},
	{"p.n", "top", true}, {"P.n", "bottom", true},
}

// pnKinds: page-number styles x where they are printed (bottom band = footer, top band = above the header).
// quick: the four styles of the design; thorough adds the other documented patterns. Both tiers add the
// letter-case variants (reduced product, see inSpace).
func pnKinds(thorough bool) []pnKind {
	styles := []string{"n", "Page_n", "n_of_N", "-_n_-"}
	if thorough {
		styles = append(styles, "Page_n_of_N", "n/N", "p._n", "pg_n")
	}
	o := []pnKind{{"none", "-", false}}
	for _, pos := range []string{"bottom", "top"} {
		for i, st := range styles {
			if !thorough && pos == "top" && i >= 2 {
				continue // quick: only "n" and "Page n" are also printed at the top
			}
			o = append(o, pnKind{st, pos, false})
		}
	}
	return append(o, pnCaseVariants...)
}

type bodyKind struct {
	name string
	off  int // distance from the page edge for the numeric-near-* kinds, else 0
}

func bodyKinds() []bodyKind {
	o := []bodyKind{{"unique", 0}, {"repeated", 0}, {"header-text", 0}, {"numeric", 0}}
	for _, off := range []int{72, 80, 101} {
		o = append(o, bodyKind{"numeric-near-bottom", off})
	}
	for _, off := range []int{72, 80, 101} {
		o = append(o, bodyKind{"numeric-near-top", off})
	}
	o = append(o, bodyKind{"rep-band-top", 0}, bodyKind{"rep-band-bottom", 0}, bodyKind{"rep-band-moving", 0})
	return o
}

var animals = []string{"Aardvark", "Baboon", "Cheetah", "Dingo", "Egret", "Ferret"}

const (
	fontSz    = 12.0
	hdrX      = 72.0
	ftrX      = 72.0 // left-aligned with the body: tabula's column detection loses centred lone page numbers even without exclusion (not this property)
	hdrDist   = 30.0 // top edge of the header line is 30 pt below the page top
	subDist   = 46.0
	pnDist    = 14.0 // a page number printed at the top sits above the header line
	ftrY      = 36.0
	runFtrY   = 18.0  // a running footer text line sits below the page number
	shadowOff = 1.5   // offset of a shadow copy
	rightX    = 400.0 // x of the right-hand item of a band
	runHdr    = "Running Title Alpha"
	repLine   = "Confidential Draft Zulu"
)

func footerText(kind string, n, N int) string {
	f, ok := pnFormats[kind]
	if !ok {
		panic("footer kind " + kind)
	}
	if strings.Contains(f, "%[2]d") {
		return fmt.Sprintf(f, n, N)
	}
	return fmt.Sprintf(f, n)
}

// pageHeights: "letter" = 792 everywhere, "a4" = 842 everywhere, "mixed" = Letter on odd, A4 on even pages.
func pageHeights(size string, P int) []float64 {
	o := make([]float64, P)
	for p := range o {
		switch {
		case size == "a4", size == "mixed" && p%2 == 1:
			o[p] = 842
		default:
			o[p] = 792
		}
	}
	return o
}

// buildDoc lays out one logical document. Every page has five unique body lines; header, page number and the
// body variant add lines. Marginal lines are placed relative to the nearest edge of their own page. Lines of a
// page are listed top-down.
func buildDoc(P int, hdr string, pn pnKind, body bodyKind, size string) *ldoc {
	d := &ldoc{P: P, PW: 612, PHs: pageHeights(size, P)}
	special := 1 // the page on which the rep-band line sits inside the band
	if special >= P {
		special = P - 1
	}
	for p := 0; p < P; p++ {
		PH := d.PHs[p]
		topY := func(dist float64) float64 { return PH - fontSz - dist } // baseline y of a line whose top edge is dist below the page top
		var ls []lline
		add := func(class, text string, x, y float64) {
			ls = append(ls, lline{id: fmt.Sprintf("p%d-%s-%d", p+1, class, len(ls)), text: text, x: x, y: y, h: fontSz, class: class, page: p})
		}
		if pn.style != "none" && pn.pos == "top" {
			add("pagenum", footerText(pn.style, p+1, P), ftrX, topY(pnDist))
		}
		switch hdr {
		case "same", "same+sub":
			add("hdr-same", runHdr, hdrX, topY(hdrDist))
			if hdr == "same+sub" {
				// a unique line in the band that shares a prefix with the running header (both directions)
				t := runHdr + " Part " + animals[p]
				if p == 1 {
					t = "Running Title"
				}
				add("hdr-sub", t, hdrX, topY(subDist))
			}
		case "oddeven":
			if p%2 == 0 {
				add("hdr-odd", "Oddside Title Bravo", hdrX, topY(hdrDist))
			} else {
				add("hdr-even", "Evenside Title Charlie", hdrX, topY(hdrDist))
			}
		case "different":
			add("hdr-diff", "Chapter "+animals[p], hdrX, topY(hdrDist))
		case "numbered":
			add("hdr-numbered", fmt.Sprintf("Section %d Overview", p+1), hdrX, topY(hdrDist))
		case "same+right":
			add("hdr-same", runHdr, hdrX, topY(hdrDist))
			add("hdr-same", "Document Code Tango", rightX, topY(hdrDist))
		case "same+shadow":
			add("hdr-same", runHdr, hdrX, topY(hdrDist))
			add("hdr-same", runHdr, hdrX+shadowOff, topY(hdrDist)-shadowOff)
		case "different+shadow":
			add("hdr-diff", "Chapter "+animals[p], hdrX, topY(hdrDist))
			add("hdr-diff", "Chapter "+animals[p], hdrX+shadowOff, topY(hdrDist)-shadowOff)
		case "same-not-first":
			if p > 0 {
				add("hdr-part", runHdr, hdrX, topY(hdrDist))
			}
		case "minority":
			if p < 2 {
				add("hdr-minority", "Preface Notes Sierra", hdrX, topY(hdrDist))
			}
		default:
			if t, ok := runLines[hdr]; ok && !strings.HasPrefix(hdr, "bottom-") {
				add("hdr-same", t, hdrX, topY(hdrDist))
			}
		}
		if body.name == "rep-band-top" && p == special {
			add("body-rep-band", repLine, hdrX, topY(62))
		}
		if body.name == "numeric-near-top" {
			add("body-num-near", fmt.Sprint(4000+17*p), hdrX, topY(float64(body.off)))
		}
		pc := byte('A' + p)
		for k := 0; k < 3; k++ {
			lc := byte('k' + k)
			add("body", fmt.Sprintf("body%c%c kilo%c%c lima%c%c", pc, lc, pc, lc, pc, lc), hdrX, PH-152-14*float64(k))
		}
		switch body.name {
		case "repeated":
			add("body-rep", repLine, hdrX, 500)
		case "header-text": // the body happens to contain the running header's text, at the same body position on every page
			add("body-hdrtext", runHdr, hdrX, 500)
		case "rep-band-top", "rep-band-bottom":
			if p != special {
				add("body-rep-band", repLine, hdrX, 500)
			}
		case "numeric":
			add("body-num", fmt.Sprint(4000+17*p), hdrX, 400)
		}
		for k := 3; k < 5; k++ {
			lc := byte('k' + k)
			add("body", fmt.Sprintf("body%c%c kilo%c%c lima%c%c", pc, lc, pc, lc, pc, lc), hdrX, 300-14*float64(k-3))
		}
		if body.name == "numeric-near-bottom" {
			add("body-num-near", fmt.Sprint(4000+17*p), hdrX, float64(body.off))
		}
		if body.name == "rep-band-bottom" && p == special {
			add("body-rep-band", repLine, hdrX, 54)
		}
		if body.name == "rep-band-moving" {
			// the same text inside the bottom band of every page, but 13 pt further up on each page (and right of the page number)
			add("body-rep-moving", repLine, 300, 59-13*float64(p))
		}
		if pn.style != "none" && pn.pos == "bottom" {
			add("pagenum", footerText(pn.style, p+1, P), ftrX, ftrY)
		}
		if t, ok := runLines[hdr]; ok && strings.HasPrefix(hdr, "bottom-") {
			add("ftr-same", t, ftrX, runFtrY)
		}
		if hdr == "bottom-same+right" {
			add("ftr-same", "Acme Internal Memo", ftrX, runFtrY)
			add("ftr-same", "Restricted Circulation Uniform", rightX, runFtrY)
		}
		if hdr == "bottom-different+shadow" {
			add("ftr-diff", "Footnote "+animals[p], ftrX, runFtrY)
			add("ftr-diff", "Footnote "+animals[p], ftrX+shadowOff, runFtrY-shadowOff)
		}
		d.pages = append(d.pages, ls)
	}
	return d
}

// ---- expectation per text key --------------------------------------------------------------------

// expect counts, for one line text on the requested pages, how many instances exist, how many of them clause 2
// allows to delete and how many clause 4 requires to delete. Working with counts per text makes the oracle
// independent of which of several identical lines an output token run stems from.
type expect struct {
	n, may, must int
	why          string // signature stem when more instances are deleted than allowed
	class        string // class of an instance that may not be deleted (else of any instance)
	mustClass    string
	mayClass     string
	maySide      string // band side of the removable instances (outcome labels only)
}

func (d *ldoc) expectations(mode string, req map[int]bool) map[string]*expect {
	m := map[string]*expect{}
	for _, l := range d.all() {
		if req != nil && !req[l.page] {
			continue
		}
		e := m[l.text]
		if e == nil {
			e = &expect{class: d.label(l)}
			m[l.text] = e
		}
		e.n++
		may, must := d.mayDelete(l), d.mustDelete(l, mode)
		if must && !may {
			panic("generator: line must be deleted but may not: " + l.id)
		}
		if may {
			e.may++
			e.mayClass, e.maySide = d.label(l), d.side(l)
		} else {
			w := d.whyNot(l)
			if e.why != "" && e.why != w {
				w = "deleted-unrepeated-line" // same text inside the band on one page and in the body on others
			}
			e.why, e.class = w, d.label(l)
		}
		if must {
			e.must++
			e.mustClass = l.class
		}
	}
	return m
}

// mayClassOr names the class of the removable instances of a text (outcome labels only).
func (e *expect) mayClassOr() string {
	if e.mayClass != "" {
		return e.mayClass
	}
	return e.class
}

func joinSorted(set map[string]bool) string {
	var s []string
	for k := range set {
		s = append(s, k)
	}
	sort.Strings(s)
	if len(s) == 0 {
		return "-"
	}
	return strings.Join(s, "+")
}

// ---- fragment granularity -------------------------------------------------------------------------

// granKinds: per-page fragment granularity of a document. "line" is the plain default of the whole product; the
// others form their own sub-space: uniform word-level / character-level documents, exactly one character-level
// (word-level) page among line-level ones, and the reverse.
var granKinds = []string{"word", "char", "char1", "line1", "word1", "linew1"}

func (d *ldoc) setGran(name string) {
	d.gran = make([]byte, d.P)
	for p := range d.gran {
		first := p == 0
		switch name {
		case "word":
			d.gran[p] = 'W'
		case "char":
			d.gran[p] = 'C'
		case "char1": // page 1 character-level, the others line-level
			d.gran[p] = pick(first, 'C', 'L')
		case "line1": // page 1 line-level, the others character-level
			d.gran[p] = pick(first, 'L', 'C')
		case "word1":
			d.gran[p] = pick(first, 'W', 'L')
		case "linew1":
			d.gran[p] = pick(first, 'L', 'W')
		default:
			d.gran[p] = 'L'
		}
	}
}

func pick(c bool, a, b byte) byte {
	if c {
		return a
	}
	return b
}

func (d *ldoc) granOf(page int) byte {
	if d.gran == nil {
		return 'L'
	}
	return d.gran[page]
}

// label is the class used in signatures: lines on word-/character-level pages are labelled by the page kind only,
// so that a defect bound to such pages has one signature and anything else on normal pages stays visible next to it.
func (d *ldoc) label(l lline) string {
	switch d.granOf(l.page) {
	case 'C':
		return "on-char-level-page"
	case 'W':
		return "on-word-level-page"
	}
	return l.class
}

// Helvetica advance widths (AFM, 1/1000 em) of the characters the generator uses.
var helv = map[rune]float64{' ': 278, '-': 333, '.': 278, '/': 278, '+': 584, ':': 278,
	'A': 667, 'B': 667, 'C': 722, 'D': 722, 'E': 667, 'F': 611, 'G': 778, 'H': 722, 'I': 278, 'J': 500, 'K': 667, 'L': 556, 'M': 833,
	'N': 722, 'O': 778, 'P': 667, 'Q': 778, 'R': 722, 'S': 667, 'T': 611, 'U': 722, 'V': 667, 'W': 944, 'X': 667, 'Y': 667, 'Z': 611,
	'a': 556, 'b': 556, 'c': 500, 'd': 556, 'e': 556, 'f': 278, 'g': 556, 'h': 556, 'i': 222, 'j': 222, 'k': 500, 'l': 222, 'm': 833,
	'n': 556, 'o': 556, 'p': 556, 'q': 556, 'r': 333, 's': 500, 't': 278, 'u': 556, 'v': 500, 'w': 722, 'x': 500, 'y': 500, 'z': 500}

func advance(r rune, size float64) float64 {
	if r >= '0' && r <= '9' {
		return 556 * size / 1000
	}
	w, ok := helv[r]
	if !ok {
		panic("no Helvetica width for " + string(r))
	}
	return w * size / 1000
}

func textWidth(s string, size float64) float64 {
	w := 0.0
	for _, r := range s {
		w += advance(r, size)
	}
	return w
}

// piece is one shown string of a line: the whole line, a word with its trailing space, or one glyph (spaces included).
type piece struct {
	text string
	x    float64
}

func (d *ldoc) pieces(l lline) []piece { return piecesAs(l, d.granOf(l.page)) }

func piecesAs(l lline, g byte) []piece {
	switch g {
	case 'W', 'C':
		var o []piece
		x, start, word := l.x, l.x, ""
		rs := []rune(l.text)
		for i, r := range rs {
			if g == 'C' {
				o = append(o, piece{string(r), x})
			}
			word += string(r)
			x += advance(r, l.h)
			if r == ' ' || i == len(rs)-1 {
				if g == 'W' {
					o = append(o, piece{word, start})
				}
				word, start = "", x
			}
		}
		return o
	}
	return []piece{{l.text, l.x}}
}

func blank(s string) bool { return strings.TrimSpace(s) == "" }

// pieceRepeated: clause 2 read per fragment - the fragment's digit-normalized text occurs at that position on another
// page. The other page's lines are cut the same way as the fragment's own page (lenient: a word of a word-level page
// also "occurs" on a line-level page whose line has that word at that place).
func (d *ldoc) pieceRepeated(l lline, pc piece) bool {
	s := d.side(l)
	if s == "" {
		return false
	}
	n := normDigits(strings.TrimSpace(pc.text))
	for _, o := range d.all() {
		if o.page == l.page || d.side(o) != s || absf(d.edgeDist(o, s)-d.edgeDist(l, s)) > posTolY {
			continue
		}
		for _, q := range piecesAs(o, d.granOf(l.page)) {
			if normDigits(strings.TrimSpace(q.text)) == n && absf(q.x-pc.x) <= posTolX {
				return true
			}
		}
	}
	return false
}

// mayDeletePiece is clause 2 for one fragment of a line. On line-level pages it is the line rule.
func (d *ldoc) mayDeletePiece(l lline, pc piece) bool {
	if d.granOf(l.page) == 'L' {
		return d.mayDelete(l)
	}
	if !d.hasRepetition() || d.side(l) == "" {
		return false
	}
	return isPagePattern(pc.text) || d.pieceRepeated(l, pc)
}

// wordMay says for every word of the line whether exclusion may delete it: on a line-level page the line rule, on a
// word-level page the word's own fragment, on a character-level page all glyph fragments of the word.
func (d *ldoc) wordMay(l lline) []bool {
	words := strings.Fields(l.text)
	o := make([]bool, len(words))
	g := d.granOf(l.page)
	if g == 'L' {
		m := d.mayDelete(l)
		for i := range o {
			o[i] = m
		}
		return o
	}
	for i := range o {
		o[i] = true
	}
	w := 0
	for _, pc := range piecesAs(l, g) {
		if !blank(pc.text) && !d.mayDeletePiece(l, pc) {
			o[w] = false
		}
		if strings.HasSuffix(pc.text, " ") {
			w++
		}
	}
	return o
}

// ---- vertical placement of the running items ----------------------------------------------------------

// vposKinds: where the outermost running item of a band sits relative to its page edge: fraction of the page height
// by which its box (top edge for the top band, bottom edge for the bottom band) lies beyond the edge. 0 = box exactly
// at the edge. ("inside" - 30 / 18 pt inside the page - is the placement of the whole rest of the product.)
var vposKinds = []struct {
	name string
	frac float64
}{{"edge", 0}, {"0.5%", 0.005}, {"1%", 0.01}, {"2%", 0.02}, {"3%", 0.03}}

// shiftBand moves every line of one margin band outwards so that the outermost one has its box edge frac*pageHeight
// beyond the page edge; the other lines of the band keep their distance to it.
func (d *ldoc) shiftBand(side string, frac float64) {
	for p := range d.pages {
		PH := d.PHs[p]
		// current distance of the outermost box edge from the page edge (inside = positive)
		inner := 1e9
		for _, l := range d.pages[p] {
			switch {
			case side == "top" && d.side(l) == "top":
				if v := PH - (l.y + l.h); v < inner {
					inner = v
				}
			case side == "bottom" && d.side(l) == "bottom":
				if l.y < inner {
					inner = l.y
				}
			}
		}
		if inner == 1e9 {
			continue
		}
		delta := inner + frac*PH
		for i := range d.pages[p] {
			l := &d.pages[p][i]
			switch {
			case side == "top" && d.side(*l) == "top":
				l.y += delta
			case side == "bottom" && d.side(*l) == "bottom":
				l.y -= delta
			}
		}
	}
	d.rep = 0
}
