package main

import (
	"fmt"
	"sort"
	"strings"
)

// ---- pinned constants (documented defaults of layout.HeaderFooterConfig) ----------------------
//
// layout/header_footer.go documents: HeaderRegionHeight / FooterRegionHeight "Default: 72 points
// (1 inch)", PositionTolerance "Default: 5 points", XPositionTolerance "Default: 10 points",
// MinPages "Default: 2". The oracle uses these documented values, never the values the code computes.
const (
	bandPt  = 72.0 // margin band: within 72 pt of the page's top or bottom edge
	posTolY = 5.0  // "same position": vertical distance from the edge differs by at most 5 pt
	posTolX = 10.0 // "same position": x differs by at most 10 pt
)

// documented page-number patterns (digits normalized to '#'), layout.isPageNumberPattern's comment list
var pagePatterns = []string{"#", "page #", "- # -", "# of #", "page # of #", "#/#", "p. #", "p.#", "pg #", "pg. #"}

// lline is one logical line of a generated document (= one shown string = one text fragment).
type lline struct {
	id    string // unique in the document
	text  string
	x, y  float64 // baseline origin, PDF user space (y grows upwards)
	h     float64 // font size = fragment height
	class string  // hdr-same | hdr-odd | hdr-even | hdr-diff | hdr-sub | hdr-numbered | ftr | body | body-rep | body-num | body-num-near | body-rep-band
	page  int     // 0-based
}

type ldoc struct {
	P      int
	PW, PH float64
	pages  [][]lline // top-down order on each page
}

func (d *ldoc) all() []lline {
	var o []lline
	for _, p := range d.pages {
		o = append(o, p...)
	}
	return o
}

// normDigits replaces every maximal run of ASCII digits by '#'.
func normDigits(s string) string {
	var b strings.Builder
	in := false
	for _, r := range s {
		if r >= '0' && r <= '9' {
			if !in {
				b.WriteByte('#')
				in = true
			}
			continue
		}
		in = false
		b.WriteRune(r)
	}
	return b.String()
}

func isPagePattern(text string) bool {
	n := strings.ToLower(strings.TrimSpace(normDigits(strings.TrimSpace(text))))
	for _, p := range pagePatterns {
		if n == p {
			return true
		}
	}
	return false
}

// side says in which margin band the line lies ("" = body band). A fragment lies in a band when any
// part of its box [y, y+h] is closer than 72 pt to that page edge (weakest reading of "lies in").
func (d *ldoc) side(l lline) string {
	if d.PH-(l.y+l.h) < bandPt {
		return "top"
	}
	if l.y < bandPt {
		return "bottom"
	}
	return ""
}

func (d *ldoc) edgeDist(l lline, side string) float64 {
	if side == "top" {
		return d.PH - (l.y + l.h)
	}
	return l.y
}

func absf(x float64) float64 {
	if x < 0 {
		return -x
	}
	return x
}

// repeated: the digit-normalized text occurs at the same marginal position on at least one other page.
func (d *ldoc) repeated(l lline) bool {
	s := d.side(l)
	if s == "" {
		return false
	}
	n := normDigits(strings.TrimSpace(l.text))
	for _, o := range d.all() {
		if o.page == l.page || d.side(o) != s {
			continue
		}
		if normDigits(strings.TrimSpace(o.text)) != n {
			continue
		}
		if absf(d.edgeDist(o, s)-d.edgeDist(l, s)) <= posTolY && absf(o.x-l.x) <= posTolX {
			return true
		}
	}
	return false
}

// mayDelete is clause 2 of the statement: in a margin band AND (repeats at that position across pages OR page-number pattern).
func (d *ldoc) mayDelete(l lline) bool {
	return d.side(l) != "" && (d.repeated(l) || isPagePattern(l.text))
}

// whyNot classifies a forbidden deletion.
func (d *ldoc) whyNot(l lline) string {
	if d.side(l) == "" {
		return "deleted-outside-band"
	}
	return "deleted-unrepeated-marginal"
}

// mustDelete is clause 4: a line repeated at the same marginal position on every page, and running page numbers,
// in a document of at least two pages, when the exclusion mode covers the side it is on.
func (d *ldoc) mustDelete(l lline, mode string) bool {
	if d.P < 2 {
		return false
	}
	switch l.class {
	case "hdr-same":
		return mode == "headers" || mode == "both"
	case "ftr":
		return mode == "footers" || mode == "both"
	}
	return false
}

// ---- generator ---------------------------------------------------------------------------------

var hdrKinds = []string{"none", "same", "oddeven", "different", "same+sub", "numbered"}
var ftrKinds = []string{"none", "n", "Page_n", "n_of_N", "-_n_-"}

type bodyKind struct {
	name string
	off  int // distance from the page edge for the numeric-near-* kinds, else 0
}

func bodyKinds() []bodyKind {
	o := []bodyKind{{"unique", 0}, {"repeated", 0}, {"numeric", 0}}
	for _, off := range []int{72, 80, 101} {
		o = append(o, bodyKind{"numeric-near-bottom", off})
	}
	for _, off := range []int{72, 80, 101} {
		o = append(o, bodyKind{"numeric-near-top", off})
	}
	o = append(o, bodyKind{"rep-band-top", 0}, bodyKind{"rep-band-bottom", 0})
	return o
}

var animals = []string{"Aardvark", "Baboon", "Cheetah", "Dingo", "Egret", "Ferret"}

const (
	fontSz  = 12.0
	hdrX    = 72.0
	ftrX    = 290.0
	hdrDist = 30.0 // top edge of the header line is 30 pt below the page top
	subDist = 46.0
	ftrY    = 36.0
)

func footerText(kind string, n, N int) string {
	switch kind {
	case "n":
		return fmt.Sprint(n)
	case "Page_n":
		return fmt.Sprintf("Page %d", n)
	case "n_of_N":
		return fmt.Sprintf("%d of %d", n, N)
	case "-_n_-":
		return fmt.Sprintf("- %d -", n)
	}
	return ""
}

// buildDoc lays out one logical document. Every page has five unique body lines; header, footer and the
// body variant add lines. Lines of a page are listed top-down.
func buildDoc(P int, hdr, ftr string, body bodyKind, PH float64) *ldoc {
	d := &ldoc{P: P, PW: 612, PH: PH}
	topY := func(dist float64) float64 { return PH - fontSz - dist } // baseline y of a line whose top edge is dist below the page top
	special := 1                                                    // the page on which the rep-band line sits inside the band
	if special >= P {
		special = P - 1
	}
	for p := 0; p < P; p++ {
		var ls []lline
		add := func(class, text string, x, y float64) {
			ls = append(ls, lline{id: fmt.Sprintf("p%d-%s-%d", p+1, class, len(ls)), text: text, x: x, y: y, h: fontSz, class: class, page: p})
		}
		switch hdr {
		case "same", "same+sub":
			add("hdr-same", "Running Title Alpha", hdrX, topY(hdrDist))
			if hdr == "same+sub" {
				// a unique line in the band that shares a prefix with the running header (both directions)
				t := "Running Title Alpha Part " + animals[p]
				if p == 1 {
					t = "Running Title"
				}
				add("hdr-sub", t, hdrX, topY(subDist))
			}
		case "oddeven":
			if p%2 == 0 {
				add("hdr-odd", "Oddside Title Bravo", hdrX, topY(hdrDist))
			} else {
				add("hdr-even", "Evenside Title Charlie", hdrX, topY(hdrDist))
			}
		case "different":
			add("hdr-diff", "Chapter "+animals[p], hdrX, topY(hdrDist))
		case "numbered":
			add("hdr-numbered", fmt.Sprintf("Section %d Overview", p+1), hdrX, topY(hdrDist))
		}
		if body.name == "rep-band-top" && p == special {
			add("body-rep-band", "Confidential Draft Zulu", hdrX, topY(62))
		}
		if body.name == "numeric-near-top" {
			add("body-num-near", fmt.Sprint(4000+17*p), hdrX, topY(float64(body.off)))
		}
		pc := byte('A' + p)
		for k := 0; k < 3; k++ {
			lc := byte('k' + k)
			add("body", fmt.Sprintf("body%c%c kilo%c%c lima%c%c", pc, lc, pc, lc, pc, lc), hdrX, PH-152-14*float64(k))
		}
		switch body.name {
		case "repeated":
			add("body-rep", "Confidential Draft Zulu", hdrX, 500)
		case "rep-band-top", "rep-band-bottom":
			if p != special {
				add("body-rep-band", "Confidential Draft Zulu", hdrX, 500)
			}
		case "numeric":
			add("body-num", fmt.Sprint(4000+17*p), hdrX, 400)
		}
		for k := 3; k < 5; k++ {
			lc := byte('k' + k)
			add("body", fmt.Sprintf("body%c%c kilo%c%c lima%c%c", pc, lc, pc, lc, pc, lc), hdrX, 300-14*float64(k-3))
		}
		if body.name == "numeric-near-bottom" {
			add("body-num-near", fmt.Sprint(4000+17*p), hdrX, float64(body.off))
		}
		if body.name == "rep-band-bottom" && p == special {
			add("body-rep-band", "Confidential Draft Zulu", hdrX, 54)
		}
		if ftr != "none" {
			add("ftr", footerText(ftr, p+1, P), ftrX, ftrY)
		}
		d.pages = append(d.pages, ls)
	}
	return d
}

// ---- expectation per text key --------------------------------------------------------------------

type expect struct {
	may, must bool
	why       string // signature stem when a deletion is forbidden
	class     string
}

// expectations maps line text -> expectation. Lines with equal text must agree (asserted): this makes the
// oracle independent of which of several identical lines an output token run stems from.
func (d *ldoc) expectations(mode string) map[string]expect {
	m := map[string]expect{}
	for _, l := range d.all() {
		e := expect{may: d.mayDelete(l), must: d.mustDelete(l, mode), why: d.whyNot(l), class: l.class}
		if e.must && !e.may {
			panic("generator: line must be deleted but may not: " + l.id)
		}
		if o, ok := m[l.text]; ok {
			if o.may != e.may || o.must != e.must {
				panic("generator: equal texts with different expectations: " + l.text)
			}
			if o.why != e.why {
				e.why = "deleted-unrepeated-line" // same text inside the band on one page and in the body on others
			}
		}
		m[l.text] = e
	}
	return m
}

func joinSorted(set map[string]bool) string {
	var s []string
	for k := range set {
		s = append(s, k)
	}
	sort.Strings(s)
	if len(s) == 0 {
		return "-"
	}
	return strings.Join(s, "+")
}
