package main

// Part (C): the word-processor and presentation readers behind the same ExcludeHeaders / ExcludeFooters /
// ExcludeHeadersAndFooters options. There is no page geometry here; the statement is read through the anchored
// mechanism: DOCX/ODT remove a body paragraph only if it equals a line of the header / footer part, PPTX removes
// header / footer / date / slide-number placeholders only. Subsequence, "unique text stays" and "documents
// without header/footer parts are unchanged" are demanded in full.

import (
	"fmt"
	"os"
	"path/filepath"
	"strings"

	"github.com/tsawler/tabula"
	"verif/internal/gen/docxw"
	"verif/internal/gen/odtw"
	"verif/internal/gen/pptxw"
	"verif/internal/harness"
)

type officeAPI struct {
	name string
	run  func(x *tabula.Extractor) (string, error)
}

var officeAPIs = []officeAPI{
	{"Text", func(x *tabula.Extractor) (string, error) { t, _, err := x.Text(); return t, err }},
	{"ToMarkdown", func(x *tabula.Extractor) (string, error) { t, _, err := x.ToMarkdown(); return t, err }},
}

// a logical paragraph of the office documents: text + whether exclusion may delete it
type opara struct {
	text string
	may  bool
	kind string
}

func partC(e *harness.Env) {
	dir := harness.Scratch()
	defer os.RemoveAll(dir)
	wordDocs(e, dir)
	decks(e, dir)
}

var hdrParts = map[string][]string{"none": nil, "one": {runHdr}, "two": {runHdr, "Department Bravo"}}
var ftrParts = map[string][]string{"none": nil, "pageno": {"Page 1"}, "text": {"Confidential Footer Charlie"}}

// extra body paragraphs: near misses and exact matches of the header / footer part lines
var extras = []struct{ name, text string }{
	{"none", ""},
	{"eq-header", runHdr},
	{"eq-header-padded", "  " + runHdr + " "},
	{"eq-header-line2", "Department Bravo"},
	{"header-is-prefix", runHdr + " continued"},
	{"prefix-of-header", "Running Title"},
	{"header-other-case", "running title alpha"},
	{"eq-footer-pageno", "Page 1"},
	{"other-pageno", "Page 2"},
	{"eq-footer-text", "Confidential Footer Charlie"},
	{"footer-is-suffix", "Not Confidential Footer Charlie"},
}

func wordDocs(e *harness.Env, dir string) {
	for _, format := range []string{"docx", "odt"} {
		for _, hk := range []string{"none", "one", "two"} {
			for _, fk := range []string{"none", "pageno", "text"} {
				for _, ex := range extras {
					for _, pos := range []string{"first", "middle", "last", "twice"} {
						if ex.name == "none" && pos != "first" {
							continue
						}
						// logical body
						body := []opara{{"bodyone kiloA limaA", false, "body"}, {"bodytwo kiloB limaB", false, "body"}, {"bodythree kiloC limaC", false, "body"}}
						if ex.name != "none" {
							t := strings.TrimSpace(ex.text)
							may := false
							for _, l := range append(append([]string{}, hdrParts[hk]...), ftrParts[fk]...) {
								if t == l {
									may = true // equal to a line of the header / footer part (weakest reading: either part, any mode)
								}
							}
							x := opara{ex.text, may, "extra"}
							switch pos {
							case "first":
								body = append([]opara{x}, body...)
							case "middle":
								body = []opara{body[0], x, body[1], body[2]}
							case "last":
								body = append(body, x)
							case "twice":
								body = []opara{x, body[0], body[1], x, body[2]}
							}
						}
						var data []byte
						built := false
						for _, mode := range []string{"headers", "footers", "both"} {
							for _, api := range officeAPIs {
								desc := harness.D("part", "office", "fmt", format, "hdrpart", hk, "ftrpart", fk, "extra", ex.name, "pos", pos, "mode", mode, "api", api.name)
								if !e.Own(desc) {
									continue
								}
								e.Begin(desc)
								if !built {
									data = buildWord(format, hdrParts[hk], ftrParts[fk], body)
									built = true
								}
								path := filepath.Join(dir, "doc."+format)
								if err := os.WriteFile(path, data, 0o644); err != nil {
									panic(err)
								}
								var sig, det, out string
								psig, pdet := harness.Guard(func() { sig, det, out = checkOffice(path, mode, api, body, hk != "none" || fk != "none") })
								if psig != "" {
									sig, det = psig, pdet
								}
								if sig != "" {
									e.Fail(desc, sig, det, map[string][]byte{"input." + format: data})
									continue
								}
								e.Pass(desc, hk != "none" || fk != "none", "office:"+out)
							}
						}
					}
				}
			}
		}
	}
}

func buildWord(format string, hdr, ftr []string, body []opara) []byte {
	if format == "docx" {
		d := docxw.Doc{}
		for _, p := range body {
			d.Body = append(d.Body, docxw.P(p.text))
		}
		for _, l := range hdr {
			d.Header = append(d.Header, docxw.P(l))
		}
		for _, l := range ftr {
			d.Footer = append(d.Footer, docxw.P(l))
		}
		return docxw.Build(d, docxw.Opts{Styles: docxw.DefaultStyles()})
	}
	d := odtw.Doc{}
	for _, p := range body {
		d.Body = append(d.Body, odtw.P(p.text))
	}
	for _, l := range hdr {
		d.Header = append(d.Header, odtw.P(l))
	}
	for _, l := range ftr {
		d.Footer = append(d.Footer, odtw.P(l))
	}
	return odtw.Build(d, odtw.Opts{Styles: odtw.DefaultStyles()})
}

// checkOffice compares the output with and without exclusion. units = the logical text units in document order.
func checkOffice(path, mode string, api officeAPI, units []opara, hasParts bool) (sig, detail, outcome string) {
	u, err := api.run(tabula.Open(path))
	if err != nil {
		return "baseline-error", err.Error(), ""
	}
	f, err := api.run(withMode(tabula.Open(path), mode))
	if err != nil {
		return "error-with-exclusion", err.Error(), ""
	}
	U, F := strings.Fields(u), strings.Fields(f)
	show := func() string { return fmt.Sprintf("unfiltered: %q\nfiltered:   %q", clip(u), clip(f)) }
	if !isSubseq(chars(F), chars(U)) || !isSubseq(F, U) {
		return "not-subsequence", "the filtered output is not a subsequence of the unfiltered one\n" + show(), ""
	}
	if !hasParts && strings.Join(F, " ") != strings.Join(U, " ") {
		return "changed-without-header-footer", "the document has neither a header nor a footer, yet exclusion changed the output\n" + show(), ""
	}
	// count per unit text (token run)
	count := func(toks []string, key []string) int {
		n := 0
		for i := 0; i+len(key) <= len(toks); i++ {
			m := true
			for j := range key {
				if toks[i+j] != key[j] {
					m = false
					break
				}
			}
			if m {
				n++
			}
		}
		return n
	}
	type agg struct{ n, may int }
	per := map[string]*agg{}
	var order []string
	for _, p := range units {
		k := strings.Join(strings.Fields(p.text), " ")
		if per[k] == nil {
			per[k] = &agg{}
			order = append(order, k)
		}
		per[k].n++
		if p.may {
			per[k].may++
		}
	}
	removed := 0
	for _, k := range order {
		key := strings.Fields(k)
		cu, cf := count(U, key), count(F, key)
		if cu < per[k].n {
			return "baseline-incomplete", fmt.Sprintf("unfiltered output holds %q %d times, document %d times\n%s", k, cu, per[k].n, show()), ""
		}
		if cu-cf > per[k].may {
			return "deleted-text-not-in-header-footer", fmt.Sprintf("%q: %d of %d instances deleted, %d equal a header/footer line (placeholder)\n%s", k, cu-cf, cu, per[k].may, show()), ""
		}
		removed += cu - cf
	}
	if removed > 0 {
		return "", "", "removed-matching-text"
	}
	if hasParts {
		return "", "", "unchanged:nothing-matches"
	}
	return "", "", "unchanged:no-header-footer"
}

// ---- PPTX ----------------------------------------------------------------------------------------

func placeholder(id int, typ, txt string) string {
	return fmt.Sprintf(`<p:sp><p:nvSpPr><p:cNvPr id="%d" name="Placeholder %d"/><p:cNvSpPr><a:spLocks noGrp="1"/></p:cNvSpPr><p:nvPr><p:ph type="%s" idx="%d"/></p:nvPr></p:nvSpPr><p:spPr/><p:txBody><a:bodyPr/><a:lstStyle/><a:p><a:r><a:rPr lang="en-US"/><a:t>%s</a:t></a:r></a:p></p:txBody></p:sp>`,
		id, id, typ, id, pptxw.Esc(txt))
}

func decks(e *harness.Env, dir string) {
	phTypes := []string{"ftr", "sldNum", "dt", "hdr"}
	phText := func(typ string, slide int) string {
		switch typ {
		case "ftr":
			return "Footline Delta Quebec"
		case "sldNum":
			return fmt.Sprint(70 + slide)
		case "dt":
			return "2024-03-05"
		}
		return "Headline Echo Romeo"
	}
	for S := 1; S <= 3; S++ {
		for mask := 0; mask < 16; mask++ {
			for _, bodyEq := range []string{"none", "eq-footer", "eq-slide-number"} {
				var units []opara
				var dk pptxw.Deck
				for s := 1; s <= S; s++ {
					sl := pptxw.Slide{Title: fmt.Sprintf("Title%c golf%c", 'A'+s-1, 'A'+s-1)}
					units = append(units, opara{sl.Title, false, "title"})
					add := func(t string) {
						sl.Paras = append(sl.Paras, pptxw.Para{Text: t})
						units = append(units, opara{t, false, "body"})
					}
					add(fmt.Sprintf("slide%c hotel%c india%c", 'A'+s-1, 'A'+s-1, 'A'+s-1))
					switch bodyEq {
					case "eq-footer":
						add(phText("ftr", s))
					case "eq-slide-number":
						add(phText("sldNum", s))
					}
					for i, typ := range phTypes {
						if mask&(1<<i) != 0 {
							sl.RawShape += placeholder(10+i, typ, phText(typ, s))
							units = append(units, opara{phText(typ, s), true, typ})
						}
					}
					dk.Slides = append(dk.Slides, sl)
				}
				var data []byte
				for _, mode := range []string{"headers", "footers", "both"} {
					for _, api := range officeAPIs {
						desc := harness.D("part", "office", "fmt", "pptx", "slides", S, "placeholders", phMask(mask, phTypes), "body", bodyEq, "mode", mode, "api", api.name)
						if !e.Own(desc) {
							continue
						}
						e.Begin(desc)
						if data == nil {
							data = dk.Bytes()
						}
						path := filepath.Join(dir, "deck.pptx")
						if err := os.WriteFile(path, data, 0o644); err != nil {
							panic(err)
						}
						var sig, det, out string
						psig, pdet := harness.Guard(func() {
							sig, det, out = checkOffice(path, mode, api, units, mask != 0)
							if sig == "" && S >= 2 {
								sig, det = checkDeckMust(path, mode, api, units)
							}
						})
						if psig != "" {
							sig, det = psig, pdet
						}
						if sig != "" {
							e.Fail(desc, sig, det, map[string][]byte{"input.pptx": data})
							continue
						}
						e.Pass(desc, mask != 0, "pptx:"+out)
					}
				}
			}
		}
	}
}

func phMask(mask int, types []string) string {
	var s []string
	for i, t := range types {
		if mask&(1<<i) != 0 {
			s = append(s, t)
		}
	}
	if len(s) == 0 {
		return "none"
	}
	return strings.Join(s, "+")
}

// checkDeckMust is clause 4 for decks of >= 2 slides: the footer text repeated on every slide and the running
// slide numbers are gone when the mode covers footers; the repeated header placeholder when it covers headers.
// Only the placeholder instances have to go: equal text in the slide body may stay.
func checkDeckMust(path, mode string, api officeAPI, units []opara) (sig, detail string) {
	f, err := api.run(withMode(tabula.Open(path), mode))
	if err != nil {
		return "error-with-exclusion", err.Error()
	}
	F := strings.Fields(f)
	cnt := map[string]int{}
	for _, t := range F {
		cnt[t]++
	}
	body := map[string]int{} // instances that are not placeholders
	for _, u := range units {
		if !u.may {
			for _, t := range strings.Fields(u.text) {
				body[t]++
			}
		}
	}
	for _, u := range units {
		must := (u.kind == "ftr" || u.kind == "sldNum") && (mode == "footers" || mode == "both") || u.kind == "hdr" && (mode == "headers" || mode == "both")
		if !must {
			continue
		}
		for _, t := range strings.Fields(u.text) {
			if cnt[t] > body[t] {
				name := "kept-running-header"
				if u.kind == "sldNum" {
					name = "kept-page-number"
				}
				return name + ":" + u.kind, fmt.Sprintf("token %q of the %s placeholder is still present %d times (%d in slide bodies)\nfiltered: %q", t, u.kind, cnt[t], body[t], clip(f))
			}
		}
	}
	return "", ""
}
