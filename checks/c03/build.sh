#!/bin/bash
# Builds the C03 check against an instrumented copy of tabula's current working tree:
# instr regenerates yield points (accesses to mutable package-level variables, classification recomputed
# from the tree), the state dump and the map-order seam; `go build -overlay` compiles them. /repo is untouched.
set -eu
out="$1"
cd "$(dirname "$0")/../.."
export GOFLAGS=-mod=mod GOPROXY=off GOSUMDB=off GOTOOLCHAIN=local CGO_ENABLED=0
repo="${VERIF_REPO:-/repo}"
tag=$(echo "$repo" | md5sum | cut -c1-8)
ov="$PWD/.build/c03/overlay-$tag"
mkdir -p .build/bin .build/c03
(cd cmd/instr && go build -o ../../.build/bin/instr .)
.build/bin/instr -repo "$repo" -out "$ov" -yield -maporder
go build ${VERIF_MODFLAG:-} -tags verif -overlay "$ov/overlay.json" -o "$out" ./checks/c03
cp "$ov/report.json" "$out.instr.json"
# auxiliary free-running pass: the same thread bodies under the race detector (needs cgo); optional
CGO_ENABLED=1 go build ${VERIF_MODFLAG:-} -race -tags verif -overlay "$ov/overlay.json" -o "$out.race" ./checks/c03 || { echo "race build unavailable"; rm -f "$out.race"; }
