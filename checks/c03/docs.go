//go:build verif

package main

import (
	"os"
	"path/filepath"

	"verif/internal/gen/samples"
)

func docNames() []string {
	return []string{"a.pdf", "pending.pdf", "broken.pdf", "ties.pdf", "widths.pdf", "forms.pdf", "badkid.pdf", "hf.pdf", "samebase.pdf", "hex.pdf", "rev2.pdf", "a.docx", "a.odt", "a.xlsx", "a.pptx", "a.epub", "a.html"}
}

func writeDocs(dir string) {
	for _, s := range samples.Named() {
		if err := os.WriteFile(filepath.Join(dir, s.Name), s.Data, 0o644); err != nil {
			panic(err)
		}
	}
}

func extraScenarios() [][]string {
	return [][]string{
		{"a.xlsx:Chunks.CSV", "a.pptx:Chunks.CSV"},
		{"a.epub:ToMarkdown", "a.html:ToMarkdown"},
		{"a.pdf:Chunks.JSONL", "a.pdf:Chunks.JSONL"},
	}
}
