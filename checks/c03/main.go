//go:build verif

// C03 — Extraction is deterministic and free of cross-call interference.
//
// Built against an instrumented copy of tabula (see build.sh / cmd/instr): yield points before every
// statement touching a mutable package-level variable, a dump of those variables, and a seam that
// lets the harness decide map iteration order. Three exhaustive sub-checks on the real code:
//
//	hist   every sequence of <=2 (quick) / <=3 (thorough) operations, each in a fresh process: every
//	       operation's bytes must equal its fresh-process baseline; the dump of mutable globals after
//	       each step is the explicit state key (states/transitions reported)
//	order  every operation under every assignment of {ascending, descending, rotated} to the map-range
//	       sites it reaches, up to 2 (quick) / 3 (thorough) deviating sites: byte-identical output
//	sched  2 and 3 goroutines running different operations under a cooperative scheduler, all
//	       interleavings with <= 2 (quick) / 3 (thorough) preemptions at the yield points: every
//	       thread's result must equal its solo baseline
package main

import (
	"crypto/sha256"
	"encoding/hex"
	"encoding/json"
	"fmt"
	"os"
	"os/exec"
	"path/filepath"
	"runtime/debug"
	"sort"
	"strconv"
	"strings"
	"time"

	"github.com/tsawler/tabula"
	"github.com/tsawler/tabula/contentstream"
	"github.com/tsawler/tabula/docx"
	"github.com/tsawler/tabula/epubdoc"
	"github.com/tsawler/tabula/htmldoc"
	"github.com/tsawler/tabula/model"
	"github.com/tsawler/tabula/odt"
	"github.com/tsawler/tabula/pptx"
	"github.com/tsawler/tabula/rag"
	"github.com/tsawler/tabula/reader"
	"github.com/tsawler/tabula/verifrt"
	"github.com/tsawler/tabula/xlsx"
	"verif/internal/harness"
)

func main() {
	if len(os.Args) > 1 && os.Args[1] == "child" {
		child(os.Args[2:])
		return
	}
	harness.Main("C03", "model_checking", run)
}

// ---- operations ---------------------------------------------------------------------------------

type operation struct {
	name string
	run  func(dir string) string
}

func h(s string) string {
	x := sha256.Sum256([]byte(s))
	return hex.EncodeToString(x[:8])
}

func guard(f func() string) (out string) {
	defer func() {
		if r := recover(); r != nil {
			out = fmt.Sprintf("PANIC: %v\n%s", r, firstFrames(string(debug.Stack())))
		}
	}()
	return f()
}

func firstFrames(st string) string {
	var keep []string
	for _, l := range strings.Split(st, "\n") {
		if strings.HasPrefix(l, "github.com/tsawler/tabula") {
			if i := strings.LastIndex(l, "("); i > 0 {
				l = l[:i] // drop the argument words (addresses differ between processes)
			}
			keep = append(keep, l)
			if len(keep) == 3 {
				break
			}
		}
	}
	return strings.Join(keep, "\n")
}

func extractorOps(doc string) []operation {
	open := func(dir string) *tabula.Extractor { return tabula.Open(filepath.Join(dir, doc)) }
	return []operation{
		{doc + ":Text", func(dir string) string {
			t, _, err := open(dir).Text()
			return fmt.Sprintf("%q %v", t, err)
		}},
		{doc + ":ToMarkdown", func(dir string) string {
			t, _, err := open(dir).ToMarkdown()
			return fmt.Sprintf("%q %v", t, err)
		}},
		{doc + ":ToMarkdown.all", func(dir string) string {
			// every optional part of the Markdown writer switched on (metadata block, table of contents,
			// separators, page numbers, chunk ids, shifted heading levels)
			t, _, err := open(dir).ToMarkdownWithOptions(rag.MarkdownOptions{IncludeMetadata: true, IncludeTableOfContents: true,
				IncludeChunkSeparators: true, IncludePageNumbers: true, IncludeChunkIDs: true, HeadingLevelOffset: 1, MaxHeadingLevel: 6, SectionSeparator: "\n\n---\n\n"})
			return fmt.Sprintf("%q %v", t, err)
		}},
		{doc + ":Chunks.CSV.fields", func(dir string) string {
			// an export with a non-default configuration: chosen metadata fields, no header, TSV and JSON too
			c, _, err := open(dir).Chunks()
			if err != nil {
				return "error: " + err.Error()
			}
			var out strings.Builder
			for _, f := range []rag.ExportFormat{rag.ExportFormatCSV, rag.ExportFormatTSV, rag.ExportFormatJSON} {
				cfg := rag.DefaultExportConfig()
				cfg.Format = f
				cfg.IncludeMetadata = true
				cfg.MetadataFields = []string{"section_path", "element_types", "level", "word_count", "page_start", "document_title"}
				var b strings.Builder
				err := rag.NewExporterWithConfig(cfg).Export(c.Chunks, &b)
				fmt.Fprintf(&out, "%q %v\n", b.String(), err)
			}
			return out.String()
		}},
		{doc + ":Text.xhf", func(dir string) string {
			t, _, err := open(dir).ExcludeHeadersAndFooters().Text()
			return fmt.Sprintf("%q %v", t, err)
		}},
		{doc + ":Chunks.JSONL", func(dir string) string {
			c, _, err := open(dir).Chunks()
			if err != nil {
				return "error: " + err.Error()
			}
			s, err := c.ToJSONL()
			return fmt.Sprintf("%q %v", s, err)
		}},
		{doc + ":Chunks.CSV", func(dir string) string {
			c, _, err := open(dir).Chunks()
			if err != nil {
				return "error: " + err.Error()
			}
			s, err := c.ToCSV()
			return fmt.Sprintf("%q %v", s, err)
		}},
	}
}

const repeatMarker = "RESULT-CHANGES-ON-REPETITION"

// readerTwiceOp extracts every page twice through ONE opened reader and, through the public API, runs the
// same terminal twice on extractors derived from one base; a second result that differs from the first is
// marked in the output (the parent treats the marker as a failure of the operation itself).
func readerTwiceOp(doc string) operation {
	return operation{doc + ":Twice", func(dir string) string {
		path := filepath.Join(dir, doc)
		var out strings.Builder
		r, err := reader.Open(path)
		if err != nil {
			return "open error: " + err.Error()
		}
		defer r.Close()
		var rounds [2]string
		for round := 0; round < 2; round++ {
			var rb strings.Builder
			n, cerr := r.PageCount()
			fmt.Fprintf(&rb, "pages=%d %v;", n, cerr)
			for i := 0; i < n && i < 8; i++ {
				pg, err := r.GetPage(i)
				if err != nil {
					fmt.Fprintf(&rb, "[%d:%v]", i, err)
					continue
				}
				t1, e1 := r.ExtractText(pg)
				fmt.Fprintf(&rb, "[%d:%q %v]", i, t1, e1)
			}
			rounds[round] = rb.String()
		}
		if rounds[0] != rounds[1] {
			fmt.Fprintf(&out, "%s on one opened reader: first pass %s, second pass %s\n", repeatMarker, rounds[0], rounds[1])
		}
		out.WriteString(rounds[0])
		base := tabula.Open(path)
		a, _, ea := base.ExcludeHeadersAndFooters().Text()
		b, _, eb := base.ExcludeHeadersAndFooters().Text()
		if a != b || fmt.Sprint(ea) != fmt.Sprint(eb) {
			fmt.Fprintf(&out, "%s Text(): first %q %v, second %q %v\n", repeatMarker, a, ea, b, eb)
		}
		fmt.Fprintf(&out, "%q %v", a, ea)
		return out.String()
	}}
}

const sharedMarker = "RESULT-DEPENDS-ON-EARLIER-CALL-ON-ONE-READER"

// sharedReaderOp runs every ordered pair (A, B) of terminal operations on extractors made from ONE opened
// reader (tabula.FromReader) and compares B's result with B run alone on a reader of its own: a caller that
// keeps a reader open and asks twice must not get an answer that depends on what was asked before.
func sharedReaderOp(doc string) operation {
	type term struct {
		name string
		run  func(*tabula.Extractor) string
	}
	terms := []term{
		{"Text", func(x *tabula.Extractor) string { t, _, err := x.Text(); return fmt.Sprintf("%q %v", t, err) }},
		{"Text.xhf", func(x *tabula.Extractor) string {
			t, _, err := x.ExcludeHeadersAndFooters().Text()
			return fmt.Sprintf("%q %v", t, err)
		}},
		{"ToMarkdown", func(x *tabula.Extractor) string { t, _, err := x.ToMarkdown(); return fmt.Sprintf("%q %v", t, err) }},
		{"ToMarkdown.xhf", func(x *tabula.Extractor) string {
			t, _, err := x.ExcludeHeadersAndFooters().ToMarkdown()
			return fmt.Sprintf("%q %v", t, err)
		}},
		{"Chunks.JSONL", func(x *tabula.Extractor) string {
			c, _, err := x.Chunks()
			if err != nil {
				return "error: " + err.Error()
			}
			s, err := c.ToJSONL()
			return fmt.Sprintf("%q %v", s, err)
		}},
		{"Pages(2).Text", func(x *tabula.Extractor) string { t, _, err := x.Pages(2).Text(); return fmt.Sprintf("%q %v", t, err) }},
	}
	return operation{doc + ":Shared", func(dir string) string {
		path := filepath.Join(dir, doc)
		var out strings.Builder
		alone := make([]string, len(terms))
		for i, t := range terms {
			r, err := reader.Open(path)
			if err != nil {
				return "open error: " + err.Error()
			}
			alone[i] = guard(func() string { return t.run(tabula.FromReader(r)) })
			r.Close()
			fmt.Fprintf(&out, "%s=%s;", t.name, h(alone[i]))
		}
		for i, a := range terms {
			for j, b := range terms {
				r, err := reader.Open(path)
				if err != nil {
					return "open error: " + err.Error()
				}
				first := guard(func() string { return a.run(tabula.FromReader(r)) })
				second := guard(func() string { return b.run(tabula.FromReader(r)) })
				r.Close()
				if first != alone[i] {
					fmt.Fprintf(&out, "\n%s: %s alone gives %s on one reader and %s on another\n", repeatMarker, a.name, alone[i], first)
				}
				if second != alone[j] {
					fmt.Fprintf(&out, "\n%s: %s after %s on one opened reader gives %s, alone it gives %s\n", sharedMarker, b.name, a.name, second, alone[j])
				}
			}
		}
		return out.String()
	}}
}

// formatReaderOp is the Shared operation for the non-PDF formats: every ordered pair of views on ONE opened
// reader of the format's own package (tabula's Extractor opens a fresh one per terminal call), the second
// compared with the same view on a reader of its own.
func formatReaderOp(doc string) operation {
	type views struct {
		text, md, rag func() (string, error)
		docu          func() (*model.Document, error)
		close         func()
	}
	ragOpts := rag.MarkdownOptions{HeadingLevelOffset: 1, MaxHeadingLevel: 3, IncludeTableOfContents: true, SectionSeparator: "\n\n---\n\n"}
	open := func(path string) (*views, error) {
		switch filepath.Ext(doc) {
		case ".html":
			r, err := htmldoc.Open(path)
			if err != nil {
				return nil, err
			}
			return &views{r.Text, r.Markdown, func() (string, error) { return r.MarkdownWithRAGOptions(htmldoc.DefaultExtractOptions(), ragOpts) }, r.Document, func() { r.Close() }}, nil
		case ".docx":
			r, err := docx.Open(path)
			if err != nil {
				return nil, err
			}
			return &views{r.Text, r.Markdown, func() (string, error) { return r.MarkdownWithRAGOptions(docx.ExtractOptions{}, ragOpts) }, r.Document, func() { r.Close() }}, nil
		case ".odt":
			r, err := odt.Open(path)
			if err != nil {
				return nil, err
			}
			return &views{r.Text, r.Markdown, func() (string, error) { return r.MarkdownWithRAGOptions(odt.ExtractOptions{}, ragOpts) }, r.Document, func() { r.Close() }}, nil
		case ".xlsx":
			r, err := xlsx.Open(path)
			if err != nil {
				return nil, err
			}
			return &views{r.Text, r.Markdown, func() (string, error) { return r.MarkdownWithRAGOptions(xlsx.ExtractOptions{}, ragOpts) }, r.Document, func() { r.Close() }}, nil
		case ".pptx":
			r, err := pptx.Open(path)
			if err != nil {
				return nil, err
			}
			return &views{r.Text, r.Markdown, func() (string, error) { return r.MarkdownWithRAGOptions(pptx.ExtractOptions{}, ragOpts) }, r.Document, func() { r.Close() }}, nil
		case ".epub":
			r, err := epubdoc.Open(path)
			if err != nil {
				return nil, err
			}
			return &views{r.Text, r.Markdown, func() (string, error) { return r.MarkdownWithRAGOptions(epubdoc.ExtractOptions{}, ragOpts) }, r.Document, func() { r.Close() }}, nil
		}
		return nil, fmt.Errorf("no reader for %s", doc)
	}
	names := []string{"Text", "Markdown", "MarkdownWithRAGOptions", "Document"}
	call := func(v *views, k int) string {
		return guard(func() string {
			switch k {
			case 0:
				t, err := v.text()
				return fmt.Sprintf("%q %v", t, err)
			case 1:
				t, err := v.md()
				return fmt.Sprintf("%q %v", t, err)
			case 2:
				t, err := v.rag()
				return fmt.Sprintf("%q %v", t, err)
			}
			d, err := v.docu()
			if err != nil || d == nil {
				return fmt.Sprintf("nil %v", err)
			}
			var b strings.Builder
			fmt.Fprintf(&b, "pages=%d text=%q", d.PageCount(), d.ExtractText())
			for _, h := range d.AllHeadings() {
				fmt.Fprintf(&b, " H%d:%q", h.Level, h.Text)
			}
			for _, t := range d.TableOfContents() {
				fmt.Fprintf(&b, " toc(%d,%d,%q)", t.Level, t.Page, t.Text)
			}
			return b.String()
		})
	}
	return operation{doc + ":SharedFormatReader", func(dir string) string {
		path := filepath.Join(dir, doc)
		var out strings.Builder
		alone := make([]string, len(names))
		for k := range names {
			v, err := open(path)
			if err != nil {
				return "open error: " + err.Error()
			}
			alone[k] = call(v, k)
			v.close()
			fmt.Fprintf(&out, "%s=%s;", names[k], h(alone[k]))
		}
		for i := range names {
			for j := range names {
				v, err := open(path)
				if err != nil {
					return "open error: " + err.Error()
				}
				first := call(v, i)
				second := call(v, j)
				v.close()
				if first != alone[i] {
					fmt.Fprintf(&out, "\n%s: %s alone gives %s on one reader and %s on another\n", repeatMarker, names[i], alone[i], first)
				}
				if second != alone[j] {
					fmt.Fprintf(&out, "\n%s: %s after %s on one opened reader gives %s, alone it gives %s\n", sharedMarker, names[j], names[i], second, alone[j])
				}
			}
		}
		return out.String()
	}}
}

func rawOp(name, src string) operation {
	return operation{"raw:" + name, func(string) string {
		ops, err := contentstream.NewParser([]byte(src)).Parse()
		return fmt.Sprintf("%v %v", ops, err)
	}}
}

var _ = rag.ExportFormatJSON

func operations() []operation {
	var ops []operation
	// operation alphabet: every document with the operations that can tell it apart from the others
	keep := map[string][]string{
		"a.pdf":        {"Text", "ToMarkdown", "Text.xhf", "Chunks.JSONL", "Chunks.CSV"},
		"pending.pdf":  {"Text"},
		"broken.pdf":   {"Text"},
		"badkid.pdf":   {"Text"},
		"ties.pdf":     {"Text", "ToMarkdown", "Chunks.JSONL", "Chunks.CSV"},
		"widths.pdf":   {"Text", "ToMarkdown"},
		"forms.pdf":    {"Text", "ToMarkdown"},
		"hf.pdf":       {"Text", "Text.xhf", "ToMarkdown"},
		"samebase.pdf": {"Text"},
		"hex.pdf":      {"Text"},
		"rev2.pdf":     {"Text"},
		"a.docx":       {"Text", "ToMarkdown", "Chunks.JSONL", "Chunks.CSV"},
		"a.xlsx":       {"Text", "ToMarkdown", "Chunks.CSV"},
		"a.pptx":       {"Text", "ToMarkdown", "Chunks.CSV"},
	}
	for _, d := range docNames() {
		for _, o := range extractorOps(d) {
			want, restricted := keep[d]
			ok := !restricted && !strings.HasSuffix(o.name, ":Text.xhf") && !strings.HasSuffix(o.name, ":Chunks.CSV")
			if strings.HasSuffix(o.name, ":Chunks.CSV.fields") {
				ok = map[string]bool{"a.pdf": true, "a.docx": true, "a.html": true}[d]
			}
			if strings.HasSuffix(o.name, ":ToMarkdown.all") {
				ok = map[string]bool{"a.pdf": true, "ties.pdf": true, "hf.pdf": true, "a.docx": true, "a.odt": true, "a.xlsx": true, "a.pptx": true, "a.epub": true, "a.html": true}[d]
			}
			for _, w := range want {
				if o.name == d+":"+w {
					ok = true
				}
			}
			if ok {
				ops = append(ops, o)
			}
		}
		if !strings.HasSuffix(d, ".pdf") {
			ops = append(ops, formatReaderOp(d))
		}
		if strings.HasSuffix(d, ".pdf") {
			ops = append(ops, readerTwiceOp(d))
			if d != "broken.pdf" && d != "pending.pdf" {
				ops = append(ops, sharedReaderOp(d))
			}
		}
	}
	ops = append(ops,
		rawOp("complete", "q 1 0 0 1 5 5 cm BT /F1 9 Tf (a) Tj ET Q"),
		rawOp("pending-operands", "BT (b) Tj ET 1 2 3"),
		rawOp("fails", "BT (c) Tj 4 5 <<"),
		operation{"html-string:Text", func(string) string {
			t, _, err := tabula.FromHTMLString("<html><body><nav><a href=x>n1</a></nav><h1>T</h1><p>para one</p><ul><li>i1</li><li>i2</li></ul></body></html>").Text()
			return fmt.Sprintf("%q %v", t, err)
		}},
		operation{"html-string:ToMarkdown", func(string) string {
			t, _, err := tabula.FromHTMLString("<html><body><h2>U</h2><table><tr><th>a</th><th>b</th></tr><tr><td>1</td><td>2</td></tr></table></body></html>").ToMarkdown()
			return fmt.Sprintf("%q %v", t, err)
		}},
	)
	return ops
}

// ---- child protocol --------------------------------------------------------------------------------

type childOut struct {
	Marked     []bool    `json:"marked"`
	Shared     []bool    `json:"shared"`
	Hashes     []string  `json:"hashes"`
	States     []string  `json:"states"`
	Outputs    []string  `json:"outputs,omitempty"`
	MapSites   []int     `json:"map_sites,omitempty"`
	MapNames   []string  `json:"map_names,omitempty"`
	YieldSites []int     `json:"yield_sites,omitempty"`
	Sched      *schedOut `json:"sched,omitempty"`
}

func child(args []string) {
	dir := os.Getenv("VERIF_C03_DIR")
	ops := operations()
	var out childOut
	switch args[0] {
	case "seq": // child seq i,j,k [site:mode,...]
		if len(args) > 2 && args[2] != "" {
			modes := map[int]int{}
			for _, kv := range strings.Split(args[2], ",") {
				p := strings.Split(kv, ":")
				s, _ := strconv.Atoi(p[0])
				m, _ := strconv.Atoi(p[1])
				modes[s] = m
			}
			verifrt.MapOrder = func(site int) int { return modes[site] }
		}
		for _, is := range strings.Split(args[1], ",") {
			i, _ := strconv.Atoi(is)
			o := guard(func() string { return ops[i].run(dir) })
			out.Hashes = append(out.Hashes, h(o))
			out.Marked = append(out.Marked, strings.Contains(o, repeatMarker))
			out.Shared = append(out.Shared, strings.Contains(o, sharedMarker))
			out.States = append(out.States, h(verifrt.DumpState()))
			if os.Getenv("VERIF_C03_VERBOSE") != "" {
				out.Outputs = append(out.Outputs, o)
			}
		}
		for s := range verifrt.MapSitesSeen {
			out.MapSites = append(out.MapSites, s)
		}
		sort.Ints(out.MapSites)
		for _, s := range out.MapSites {
			out.MapNames = append(out.MapNames, siteName(s))
		}
	case "race": // child race i,j[,k] rounds : free-running goroutines under the race detector (auxiliary)
		var idx []int
		for _, is := range strings.Split(args[1], ",") {
			i, _ := strconv.Atoi(is)
			idx = append(idx, i)
		}
		rounds, _ := strconv.Atoi(args[2])
		verifrt.TrackSites = false // the bookkeeping map of the seam is not synchronized
		for r := 0; r < rounds; r++ {
			done := make(chan struct{}, len(idx))
			for _, i := range idx {
				i := i
				go func() {
					guard(func() string { return ops[i].run(dir) })
					done <- struct{}{}
				}()
			}
			for range idx {
				<-done
			}
		}
	case "sched": // child sched i,j[,k] bound
		var idx []int
		for _, is := range strings.Split(args[1], ",") {
			i, _ := strconv.Atoi(is)
			idx = append(idx, i)
		}
		bound, _ := strconv.Atoi(args[2])
		out.Sched = exploreSchedules(dir, ops, idx, bound)
	}
	b, _ := json.Marshal(out)
	os.Stdout.Write(b)
}

// ---- cooperative scheduler + preemption-bounded DFS ----------------------------------------------------

type thread struct {
	id     int
	resume chan struct{}
	done   bool
	out    string
}

type point struct {
	enabled         []int
	curStillEnabled bool
}

type schedOut struct {
	Schedules   int      `json:"schedules"`
	Violating   int      `json:"violating"`
	Outcomes    int      `json:"outcomes"`
	YieldSites  []string `json:"yield_sites"`
	MaxPoints   int      `json:"max_points"`
	First       string   `json:"first,omitempty"`
	FirstChoice []int    `json:"first_choices,omitempty"`
	Capped      bool     `json:"capped"`
	Diverged    string   `json:"diverged,omitempty"`
}

func runSchedule(bodies []func() string, prefix []int, sites map[int]bool) (outs []string, pts []point, choices []int) {
	toSched := make(chan int)
	var threads []*thread
	var cur *thread
	for i, b := range bodies {
		t := &thread{id: i, resume: make(chan struct{})}
		threads = append(threads, t)
		b := b
		go func() {
			<-t.resume
			t.out = guard(b)
			t.done = true
			toSched <- -t.id - 1
		}()
	}
	verifrt.OnYield = func(site int) {
		sites[site] = true
		t := cur
		toSched <- t.id
		<-t.resume
	}
	for {
		var enabled []int
		curEnabled := cur != nil && !cur.done
		if curEnabled {
			enabled = append(enabled, cur.id)
		}
		for _, t := range threads {
			if !t.done && (cur == nil || t.id != cur.id) {
				enabled = append(enabled, t.id)
			}
		}
		if len(enabled) == 0 {
			break
		}
		c := 0
		if len(choices) < len(prefix) {
			c = prefix[len(choices)]
			if c >= len(enabled) {
				panic(fmt.Sprintf("schedule replay diverged at point %d: choice %d of %d", len(choices), c, len(enabled)))
			}
		}
		pts = append(pts, point{enabled, curEnabled})
		choices = append(choices, c)
		cur = threads[enabled[c]]
		cur.resume <- struct{}{}
		<-toSched
	}
	verifrt.OnYield = nil
	for _, t := range threads {
		outs = append(outs, t.out)
	}
	return outs, pts, choices
}

func exploreSchedules(dir string, ops []operation, idx []int, bound int) *schedOut {
	res := &schedOut{}
	var bodies []func() string
	var solo []string
	for _, i := range idx {
		i := i
		bodies = append(bodies, func() string { return ops[i].run(dir) })
	}
	for _, b := range bodies {
		solo = append(solo, guard(b))
	}
	sites := map[int]bool{}
	outcomes := map[string]bool{}
	cap := 30000
	if os.Getenv("VERIF_C03_THOROUGH") != "" {
		cap = 400000
	}
	started := time.Now()
	var explore func(prefix []int)
	explore = func(prefix []int) {
		if res.Schedules >= cap || time.Since(started) > 4*time.Minute || (res.Violating > 0 && res.Schedules >= 2000) {
			res.Capped = true
			return
		}
		outs, pts, ch := runSchedule(bodies, prefix, sites)
		res.Schedules++
		if len(pts) > res.MaxPoints {
			res.MaxPoints = len(pts)
		}
		outcomes[h(strings.Join(outs, "\x00"))] = true
		for i := range outs {
			if outs[i] != solo[i] {
				res.Violating++
				if res.First == "" {
					// the same schedule must fail the same way when replayed
					outs2, _, _ := runSchedule(bodies, ch, sites)
					if strings.Join(outs2, "\x00") != strings.Join(outs, "\x00") {
						res.Diverged = fmt.Sprintf("schedule %v gave different results on replay", ch)
					}
					res.First = fmt.Sprintf("thread %d (%s) under schedule %v:\n got  %s\n solo %s", i, ops[idx[i]].name, ch, clip(outs[i]), clip(solo[i]))
					res.FirstChoice = ch
				}
				break
			}
		}
		for i := len(prefix); i < len(pts); i++ {
			cost := 0
			for j := 0; j < i; j++ {
				if pts[j].curStillEnabled && ch[j] != 0 {
					cost++
				}
			}
			for alt := 1; alt < len(pts[i].enabled); alt++ {
				c := cost
				if pts[i].curStillEnabled {
					c++
				}
				if c > bound {
					continue
				}
				explore(append(append([]int{}, ch[:i]...), alt))
			}
		}
	}
	explore(nil)
	res.Outcomes = len(outcomes)
	for s := range sites {
		res.YieldSites = append(res.YieldSites, verifrt.YieldNames[s])
	}
	sort.Strings(res.YieldSites)
	return res
}

func clip(s string) string {
	if len(s) > 400 {
		return s[:400] + "…"
	}
	return s
}

// ---- parent side ---------------------------------------------------------------------------------------

func runChild(dir string, args ...string) (*childOut, error) {
	self, _ := os.Executable()
	cmd := exec.Command(self, append([]string{"child"}, args...)...)
	cmd.Env = append(os.Environ(), "VERIF_C03_DIR="+dir, "GOMAXPROCS=2")
	if thoroughTier {
		cmd.Env = append(cmd.Env, "VERIF_C03_THOROUGH=1")
	}
	b, err := cmd.Output()
	if err != nil {
		msg := ""
		if ee, ok := err.(*exec.ExitError); ok {
			msg = string(ee.Stderr)
		}
		return nil, fmt.Errorf("child %v: %v\n%s", args, err, clip(msg))
	}
	var out childOut
	if err := json.Unmarshal(b, &out); err != nil {
		return nil, fmt.Errorf("child %v: bad output %q", args, clip(string(b)))
	}
	return &out, nil
}

func joinInts(a []int) string {
	var s []string
	for _, x := range a {
		s = append(s, strconv.Itoa(x))
	}
	return strings.Join(s, ",")
}

var thoroughTier bool

func run(e *harness.Env) {
	thoroughTier = e.Thorough()
	e.Track = true
	e.CaseDeadline = 15 * time.Minute
	e.Rule = "hist: all operation sequences up to length 2 (quick) / 3 (thorough) over the operation alphabet (documents of every format x {Text, ToMarkdown, Chunks->JSONL, Chunks->CSV}, raw content-stream parses incl. one ending mid-operand and one failing, HTML strings), " +
		"one fresh process per sequence, state key = dump of the mutable package-level variables found by the instrumenter; order: per operation all assignments of {asc,desc,rotated} to reached map-range sites with <=2/3 deviating sites; " +
		"sched: 2- and 3-thread scenarios, all interleavings with <=2/3 preemptions at instrumented yield points. distinct = descriptors; non-trivial = sequences of length>=2, any deviating order, any schedule exploration"
	e.Assumptions = []string{
		"yield points are placed at syntactic accesses to mutable package-level variables (classification recomputed from the tree by cmd/instr); mutation through an alias obtained earlier is not a scheduling point",
		"map-range sites over maps with non-basic keys or ranging over call results stay native (listed in the instrumenter report)",
	}
	dir := harness.Scratch()
	defer os.RemoveAll(dir)
	writeDocs(dir)
	ops := operations()
	e.Note("operations", fmt.Sprint(len(ops)))
	if b, err := os.ReadFile(exePath() + ".instr.json"); err == nil {
		var rep struct {
			Mutable map[string][]string `json:"mutable_globals"`
			Yield   []string            `json:"yield_sites"`
			Maps    []string            `json:"map_sites"`
			Skipped []string            `json:"map_sites_uncontrolled"`
		}
		if json.Unmarshal(b, &rep) == nil {
			var names []string
			for k := range rep.Mutable {
				names = append(names, k)
			}
			sort.Strings(names)
			e.Note("mutable_package_level_variables", strings.Join(names, " "))
			e.Note("instrumented_yield_sites", fmt.Sprint(len(rep.Yield)))
			e.Note("instrumented_map_sites", fmt.Sprint(len(rep.Maps)))
			e.Note("uncontrolled_map_sites", strings.Join(rep.Skipped, "; "))
		}
	}

	// baselines: one fresh process per operation
	base := make([]string, len(ops))
	baseState := ""
	mapSites := make([][]int, len(ops))
	need := func(i int) bool { return base[i] != "" }
	getBase := func(i int) error {
		if need(i) {
			return nil
		}
		out, err := runChild(dir, "seq", strconv.Itoa(i))
		if err != nil {
			return err
		}
		base[i] = out.Hashes[0]
		mapSites[i] = out.MapSites
		return nil
	}
	if out, err := runChild(dir, "seq", "0"); err == nil {
		_ = out
	}
	states := map[string]bool{}

	// ---- hist ----
	maxLen := 2
	if e.Thorough() {
		maxLen = 3
	}
	var walk func(seq []int)
	walk = func(seq []int) {
		if len(seq) > 0 {
			var names []string
			for _, i := range seq {
				names = append(names, ops[i].name)
			}
			desc := harness.D("sub", "hist", "len", len(seq), "seq", strings.Join(names, ">"))
			if e.Own(desc) {
				e.Begin(desc)
				failed := false
				for _, i := range seq {
					if err := getBase(i); err != nil {
						e.Fail(desc, "child-died", err.Error(), nil)
						failed = true
						break
					}
				}
				if !failed {
					out, err := runChild(dir, "seq", joinInts(seq))
					if err != nil {
						e.Fail(desc, "child-died", err.Error(), nil)
					} else {
						bad := -1
						for k, i := range seq {
							if out.Hashes[k] != base[i] {
								bad = k
								break
							}
						}
						marked := -1
						for k := range seq {
							if k < len(out.Marked) && out.Marked[k] {
								marked = k
							}
						}
						if marked >= 0 && bad < 0 {
							det := fmt.Sprintf("operation %d (%s) repeats an extraction on one opened reader / one base extractor and gets a different result the second time", marked+1, ops[seq[marked]].name)
							if v, err := verbose(dir, seq, marked); err == nil {
								det += "\n" + v
							}
							e.Fail(desc, "result-changes-on-repetition", det, nil)
						}
						shared := -1
						for k := range seq {
							if k < len(out.Shared) && out.Shared[k] {
								shared = k
							}
						}
						if shared >= 0 && bad < 0 && marked < 0 {
							det := fmt.Sprintf("operation %d (%s): on one opened reader the result of a terminal operation depends on the operation run before it", shared+1, ops[seq[shared]].name)
							if v, err := verbose(dir, seq, shared); err == nil {
								det += "\n" + v
							}
							e.Fail(desc, "result-depends-on-earlier-call-on-one-reader", det, nil)
						}
						e.Add("transitions", int64(len(seq)))
						e.Add("traces_validated_against_impl", 1)
						for _, s := range out.States {
							states[s] = true
							e.AddSet("states", s)
						}
						_ = baseState
						if bad >= 0 {
							det := fmt.Sprintf("operation %d (%s) of the sequence returns different bytes than in a fresh process", bad+1, ops[seq[bad]].name)
							if v, err := verbose(dir, seq, bad); err == nil {
								det += "\n" + v
							}
							e.Fail(desc, "result-depends-on-preceding-calls", det, nil)
						} else if marked < 0 {
							e.Pass(desc, len(seq) > 1, fmt.Sprintf("hist:len=%d", len(seq)))
						}
					}
				}
			}
		}
		if len(seq) == maxLen {
			return
		}
		for i := range ops {
			walk(append(append([]int{}, seq...), i))
		}
	}
	walk(nil)

	// ---- order ----
	devBound := 2
	if e.Thorough() {
		devBound = 3
	}
	for i := range ops {
		// cheap ownership pre-test on the operation level so that only one worker computes the site list
		if !e.Own(harness.D("sub", "order-plan", "op", ops[i].name)) && !e.Replaying() {
			continue
		}
		if err := getBase(i); err != nil {
			e.Fail(harness.D("sub", "order", "op", ops[i].name, "sites", "-"), "child-died", err.Error(), nil)
			continue
		}
		sites := mapSites[i]
		e.Max("max_map_sites_reached_by_one_operation", int64(len(sites)))
		var assign func(start int, cur []string)
		assign = func(start int, cur []string) {
			if len(cur) > 0 {
				desc := harness.D("sub", "order", "op", ops[i].name, "sites", strings.Join(cur, ","))
				if e.Replaying() && !e.Own(desc) {
					// fallthrough to recursion
				} else {
					e.Begin(desc)
					out, err := runChild(dir, "seq", strconv.Itoa(i), strings.Join(cur, ","))
					switch {
					case err != nil:
						e.Fail(desc, "child-died", err.Error(), nil)
					case out.Hashes[0] != base[i]:
						var names []string
						for _, kv := range cur {
							s, _ := strconv.Atoi(strings.Split(kv, ":")[0])
							names = append(names, siteName(s)+"="+[]string{"asc", "desc", "rotated"}[atoi(strings.Split(kv, ":")[1])])
						}
						e.Fail(desc, "result-depends-on-map-iteration-order", "output differs from the ascending-order run when "+strings.Join(names, ", "), nil)
					default:
						e.Pass(desc, true, fmt.Sprintf("order:dev=%d", len(cur)))
					}
				}
			}
			if len(cur) == devBound {
				return
			}
			for k := start; k < len(sites); k++ {
				for mode := 1; mode <= 2; mode++ {
					assign(k+1, append(append([]string{}, cur...), fmt.Sprintf("%d:%d", sites[k], mode)))
				}
			}
		}
		assign(0, nil)
	}

	// ---- sched ----
	pb := 2
	if e.Thorough() {
		pb = 3
	}
	find := func(name string) int {
		for i, o := range ops {
			if o.name == name {
				return i
			}
		}
		panic("no operation " + name)
	}
	scenarios := [][]string{
		{"raw:complete", "raw:pending-operands"},
		{"raw:pending-operands", "raw:fails"},
		{"raw:complete", "raw:pending-operands", "raw:fails"},
		{"a.pdf:Text", "pending.pdf:Text"},
		{"pending.pdf:Text", "broken.pdf:Text", "raw:complete"},
		{"html-string:Text", "html-string:ToMarkdown"},
		{"a.pdf:Chunks.CSV", "a.docx:Chunks.JSONL"},
		{"a.html:Text", "html-string:Text", "a.pdf:ToMarkdown"},
		{"a.docx:ToMarkdown", "a.odt:ToMarkdown"},
	}
	for _, extra := range extraScenarios() {
		scenarios = append(scenarios, extra)
	}
	for _, sc := range scenarios {
		desc := harness.D("sub", "sched", "threads", len(sc), "ops", strings.Join(sc, "|"), "preemptions", pb)
		if !e.Own(desc) {
			continue
		}
		e.Begin(desc)
		var idx []int
		for _, n := range sc {
			idx = append(idx, find(n))
		}
		out, err := runChild(dir, "sched", joinInts(idx), strconv.Itoa(pb))
		if err != nil {
			e.Fail(desc, "child-died", err.Error(), nil)
			continue
		}
		s := out.Sched
		e.Add("schedules", int64(s.Schedules))
		e.Add("transitions", int64(s.Schedules))
		e.Max("max_scheduling_points_in_one_execution", int64(s.MaxPoints))
		e.Note("yield_sites_reached:"+strings.Join(sc, "|"), strings.Join(s.YieldSites, " "))
		if s.Capped && s.Violating == 0 {
			e.Incomplete("schedule cap reached in scenario " + strings.Join(sc, "|"))
		}
		if s.Diverged != "" {
			e.Fail(desc, "schedule-not-reproducible", s.Diverged, nil)
			continue
		}
		if s.Violating > 0 {
			e.Fail(desc, "result-depends-on-concurrent-extraction", fmt.Sprintf("%d of %d schedules (<=%d preemptions) change a thread's result; first: %s", s.Violating, s.Schedules, pb, s.First), nil)
			continue
		}
		e.Pass(desc, true, fmt.Sprintf("sched:threads=%d:yield-sites=%d:schedules>=%d", len(sc), len(s.YieldSites), pow10(s.Schedules)))
	}

	// ---- auxiliary free-running pass under the race detector (thorough tier; a reported data race is a
	// definite defect, absence of a report proves nothing - the deciding sub-check is sched) ----
	raceBin := exePath() + ".race"
	if _, err := os.Stat(raceBin); err != nil || (!e.Thorough() && os.Getenv("VERIF_C03_RACE") == "") {
		e.Note("aux_race", "not run (thorough tier only; needs a cgo toolchain)")
		return
	}
	e.Note("aux_race", "run: every scheduling scenario, 30 free-running rounds under -race")
	for _, sc := range scenarios {
		desc := harness.D("sub", "race", "threads", len(sc), "ops", strings.Join(sc, "|"))
		if !e.Own(desc) {
			continue
		}
		e.Begin(desc)
		var idx []int
		for _, n := range sc {
			idx = append(idx, find(n))
		}
		detected, report := false, ""
		for attempt := 0; attempt < 3 && !detected; attempt++ {
			cmd := exec.Command(raceBin, "child", "race", joinInts(idx), "30")
			cmd.Env = append(os.Environ(), "VERIF_C03_DIR="+dir, "GORACE=halt_on_error=1 exitcode=66", "GOMAXPROCS=4")
			out, err := cmd.CombinedOutput()
			if ee, ok := err.(*exec.ExitError); ok && ee.ExitCode() == 66 {
				detected, report = true, raceSummary(string(out))
			}
		}
		if detected {
			e.Fail(desc, "data-race", report, nil)
			continue
		}
		e.Pass(desc, true, "race:clean")
	}
}

// raceSummary keeps the function names of the two conflicting accesses (addresses and goroutine ids vary).
func raceSummary(out string) string {
	var keep []string
	for _, l := range strings.Split(out, "\n") {
		t := strings.TrimSpace(l)
		if strings.HasPrefix(t, "WARNING: DATA RACE") || strings.HasPrefix(t, "Write at") || strings.HasPrefix(t, "Read at") || strings.HasPrefix(t, "Previous") || strings.HasPrefix(t, "github.com/tsawler/tabula") {
			keep = append(keep, t)
			if len(keep) > 12 {
				break
			}
		}
	}
	return strings.Join(keep, "\n")
}

func pow10(n int) int {
	p := 1
	for p*10 <= n {
		p *= 10
	}
	return p
}

func atoi(s string) int { n, _ := strconv.Atoi(s); return n }

func siteName(s int) string {
	if s >= 0 && s < len(verifrt.MapSiteNames) {
		return verifrt.MapSiteNames[s]
	}
	return fmt.Sprint(s)
}

func exePath() string { p, _ := os.Executable(); return p }

func verbose(dir string, seq []int, bad int) (string, error) {
	self, _ := os.Executable()
	run1 := func(arg string) (*childOut, error) {
		cmd := exec.Command(self, "child", "seq", arg)
		cmd.Env = append(os.Environ(), "VERIF_C03_DIR="+dir, "VERIF_C03_VERBOSE=1")
		b, err := cmd.Output()
		if err != nil {
			return nil, err
		}
		var o childOut
		return &o, json.Unmarshal(b, &o)
	}
	a, err := run1(joinInts(seq))
	if err != nil {
		return "", err
	}
	b, err := run1(strconv.Itoa(seq[bad]))
	if err != nil {
		return "", err
	}
	return fmt.Sprintf("in sequence: %s\nfresh:       %s", clip(a.Outputs[bad]), clip(b.Outputs[0])), nil
}
