package main

import (
	"fmt"
	"sort"
	"strings"
)

// acell is one non-blank cell as a view shows it, in the view's own coordinates
// (grid indices, line/field of the TSV, row/column of the Markdown or model table).
type acell struct {
	r, c int
	s    string
}

// ecell is one cell of the input workbook with the value a spreadsheet displays at its address.
type ecell struct {
	r, c    int
	want    string // "" for a blank cell and for a cell covered by a merged region
	kind    string // storage kind of the input cell
	covered bool   // input cell carries a value but lies inside a merged region, not at its top-left
	raw     string // the stored value (differs from want only for covered cells)
}

type sheetExp struct {
	name  string
	cells []ecell
	byPos map[[2]int]*ecell
	// bounds of the non-blank expected cells
	minR, minC, maxR, maxC int
	content                bool
}

func newSheetExp(name string, cells []ecell) *sheetExp {
	s := &sheetExp{name: name, cells: cells, byPos: map[[2]int]*ecell{}}
	for i := range s.cells {
		e := &s.cells[i]
		s.byPos[[2]int{e.r, e.c}] = e
		if e.want == "" {
			continue
		}
		if !s.content {
			s.minR, s.maxR, s.minC, s.maxC, s.content = e.r, e.r, e.c, e.c, true
			continue
		}
		s.minR, s.maxR = min(s.minR, e.r), max(s.maxR, e.r)
		s.minC, s.maxC = min(s.minC, e.c), max(s.maxC, e.c)
	}
	return s
}

// norm makes the comparison of displayed values insensitive to how a line break or tab inside a
// value is rendered (kept, or replaced by a blank): every run of white space becomes one blank.
// Generated values never start or end with white space and never contain two blanks in a row.
func norm(s string) string { return strings.Join(strings.Fields(s), " ") }

type off struct{ r, c int } // grid position = view position + off

// candidates lists the offsets worth trying for one sheet: the absolute one (view row 0 / column 0
// is row 1 / column A), the tight content bounds, and every offset that would put an actual cell
// on an expected cell with the same text.
func candidates(exp *sheetExp, act []acell, first bool) []off {
	out := []off{{0, 0}}
	seen := map[off]bool{{0, 0}: true}
	add := func(o off) {
		if o.c < 0 || (first && o.r < 0) || seen[o] {
			return
		}
		seen[o] = true
		out = append(out, o)
	}
	if exp.content {
		add(off{exp.minR, exp.minC})
		if !first {
			// a later sheet of a stacked view: also try "below everything the view shows"
			last := 0
			for _, a := range act {
				last = max(last, a.r)
			}
			add(off{exp.minR - (last + 2), 0})
			add(off{exp.minR - (last + 2), exp.minC})
		}
	}
	n := 0
	for _, a := range act {
		if n >= 24 {
			break
		}
		n++
		for i := range exp.cells {
			e := &exp.cells[i]
			if e.raw != "" && norm(e.raw) == norm(a.s) { // incl. covered cells: only sharpens the diagnosis
				add(off{e.r - a.r, e.c - a.c})
			}
		}
	}
	return out
}

type mismatch struct {
	class string // missing:<kind> | wrong:<kind> | covered-shown | extra-value | sheet-blocks-not-separated
	text  string
}

// cost ranks readings that are all wrong, for the diagnosis only (a view passes iff some reading has
// no mismatch at all): prefer the reading that explains an unexpected value as a covered cell of the
// input over one that sees a value out of nowhere or a displaced value.
func cost(mm []mismatch) int {
	n := 0
	for _, m := range mm {
		switch {
		case m.class == "covered-shown":
			n += 2
		case m.class == "extra-value":
			n += 4
		case m.class == "sheet-blocks-not-separated":
			n += 1000
		case strings.HasPrefix(m.class, "wrong:"):
			n += 6
		default:
			n += 3
		}
	}
	return n
}

// evaluate counts what is wrong when sheet k of the workbook is read at offset offs[k].
// sequential: the view stacks the sheets vertically (TSV); blocks must follow each other in
// declared order with at least one blank line between them.
func evaluate(exps []*sheetExp, act []acell, idx map[[2]int]int, offs []off, sequential bool) []mismatch {
	var mm []mismatch
	claimed := make([]bool, len(act))
	for k, exp := range exps {
		o := offs[k]
		for i := range exp.cells {
			e := &exp.cells[i]
			if e.want == "" {
				continue
			}
			vr, vc := e.r-o.r, e.c-o.c
			ai, ok := idx[[2]int{vr, vc}]
			switch {
			case vr < 0 || vc < 0 || !ok:
				mm = append(mm, mismatch{"missing:" + e.kind, fmt.Sprintf("sheet %s %s: want %q, view shows nothing there", exp.name, a1(e.c, e.r), e.want)})
			case norm(act[ai].s) != norm(e.want):
				claimed[ai] = true
				mm = append(mm, mismatch{"wrong:" + e.kind, fmt.Sprintf("sheet %s %s: want %q, view shows %q", exp.name, a1(e.c, e.r), e.want, act[ai].s)})
			default:
				claimed[ai] = true
			}
		}
	}
	for ai, a := range act {
		if claimed[ai] {
			continue
		}
		class := "extra-value"
		where := ""
		for k, exp := range exps {
			if e := exp.byPos[[2]int{a.r + offs[k].r, a.c + offs[k].c}]; e != nil && e.covered {
				class = "covered-shown"
				where = fmt.Sprintf(" (sheet %s %s lies inside a merged region, not at its top-left)", exp.name, a1(e.c, e.r))
			}
		}
		mm = append(mm, mismatch{class, fmt.Sprintf("view row %d column %d shows %q where a blank is expected%s", a.r, a.c, a.s, where)})
	}
	if sequential {
		last := -1 << 30
		for k, exp := range exps {
			if !exp.content {
				continue
			}
			lo, hi := exp.minR-offs[k].r, exp.maxR-offs[k].r
			if last > -1<<30 && lo < last+2 {
				mm = append(mm, mismatch{"sheet-blocks-not-separated", fmt.Sprintf("the lines of sheet %s do not follow the previous sheet's lines after a blank line", exp.name)})
			}
			last = hi
		}
	}
	return mm
}

// match compares a view with the expectation under the weakest reading of "at its address":
// there is one offset per sheet (row 0 / column 0 of the view is some grid row / column at or
// before the first content row / column) under which every displayed value sits at its address
// and everything else is blank. fixed: only the absolute offset is allowed (sheet grid).
// Returns the distinct mismatch classes (empty: the view is right) and a human-readable detail.
func match(exps []*sheetExp, act []acell, fixed, sequential bool) ([]string, string) {
	idx := make(map[[2]int]int, len(act))
	for i, a := range act {
		idx[[2]int{a.r, a.c}] = i
	}
	cands := make([][]off, len(exps))
	total := 1
	for k, exp := range exps {
		if fixed {
			cands[k] = []off{{0, 0}}
		} else {
			cands[k] = candidates(exp, act, k == 0)
		}
		total *= len(cands[k])
	}
	var best []mismatch
	var bestOff []off
	pick := make([]int, len(exps))
	for n := 0; n < total; n++ {
		x := n
		offs := make([]off, len(exps))
		for k := range exps {
			pick[k] = x % len(cands[k])
			x /= len(cands[k])
			offs[k] = cands[k][pick[k]]
		}
		mm := evaluate(exps, act, idx, offs, sequential)
		if bestOff == nil || cost(mm) < cost(best) {
			best, bestOff = mm, offs
		}
		if len(best) == 0 {
			return nil, ""
		}
	}
	set := map[string]bool{}
	var det strings.Builder
	fmt.Fprintf(&det, "best reading: view (0,0) = grid offsets %v\n", bestOff)
	lines := 0
	for _, m := range best {
		set[m.class] = true
		if m.text != "" && lines < 8 {
			det.WriteString("  " + m.text + "\n")
			lines++
		}
	}
	var classes []string
	for c := range set {
		classes = append(classes, c)
	}
	sort.Strings(classes)
	return classes, det.String()
}

func a1(c, r int) string { return colName(c) + fmt.Sprint(r+1) }
