package main

import (
	"fmt"
	"regexp"
	"strings"

	"github.com/tsawler/tabula"
	"github.com/tsawler/tabula/model"
	"github.com/tsawler/tabula/xlsx"
	"verif/internal/gen/xlsxw"
)

func colName(c int) string { return xlsxw.ColName(c) }

// viewResult: per-sheet actual cells of a view, or a structural problem that prevents reading it.
type viewResult struct {
	sheets  [][]acell // one list per sheet (grid, md, model); text: a single list for the whole output
	problem string    // structural signature ("" = none)
	detail  string
	notes   []string // outcome annotations (not failures)
}

// ---- (1) the sheet grid: xlsx.Open(f).Sheet(i).Cell(r,c) --------------------------------------

func viewGrid(path string, exps []*sheetExp) viewResult {
	var v viewResult
	rd, err := xlsx.Open(path)
	if err != nil {
		return viewResult{problem: "open-error", detail: err.Error()}
	}
	defer rd.Close()
	if rd.SheetCount() != len(exps) {
		return viewResult{problem: "sheet-count", detail: fmt.Sprintf("SheetCount()=%d, workbook declares %d sheets", rd.SheetCount(), len(exps))}
	}
	flagged := false
	for i, exp := range exps {
		sh, err := rd.Sheet(i)
		if err != nil {
			return viewResult{problem: "sheet-error", detail: err.Error()}
		}
		if sh.Name != exp.name {
			return viewResult{problem: "sheet-order", detail: fmt.Sprintf("Sheet(%d).Name=%q, declared %q", i, sh.Name, exp.name)}
		}
		var cells []acell
		rows, cols := sh.RowCount(), sh.ColCount()
		for r := 0; r < rows; r++ {
			for c := 0; c < cols; c++ {
				cell := sh.Cell(r, c)
				if cell == nil || cell.Value == "" {
					continue
				}
				if cell.Row != r || cell.Col != c {
					return viewResult{problem: "cell-coordinates", detail: fmt.Sprintf("Cell(%d,%d) carries Row=%d Col=%d", r, c, cell.Row, cell.Col)}
				}
				// Weakest reading for the grid: a cell that the grid itself marks as covered by a
				// merged region (IsMerged && !IsMergeRoot) counts as blank even if its raw value is kept.
				if cell.IsMerged && !cell.IsMergeRoot {
					flagged = true
					continue
				}
				cells = append(cells, acell{r, c, cell.Value})
			}
		}
		// CellByRef must agree with Cell for every input address
		for _, e := range exp.cells {
			a, b := sh.CellByRef(a1(e.c, e.r)), sh.Cell(e.r, e.c)
			if a != b {
				return viewResult{problem: "cellbyref-differs", detail: fmt.Sprintf("CellByRef(%s) != Cell(%d,%d)", a1(e.c, e.r), e.r, e.c)}
			}
		}
		v.sheets = append(v.sheets, cells)
	}
	if flagged {
		v.notes = append(v.notes, "covered-value-kept-but-flagged")
	}
	return v
}

// ---- (2) tab-separated text: tabula.Open(f).Text() ------------------------------------------------

func textCells(text string) []acell {
	var cells []acell
	for r, line := range strings.Split(text, "\n") {
		for c, f := range strings.Split(line, "\t") {
			if f != "" {
				cells = append(cells, acell{r, c, f})
			}
		}
	}
	return cells
}

func viewText(path string) (viewResult, string) {
	text, _, err := tabula.Open(path).Text()
	if err != nil {
		return viewResult{problem: "error", detail: err.Error()}, ""
	}
	return viewResult{sheets: [][]acell{textCells(text)}}, text
}

// ---- (3) Markdown: tabula.Open(f).ToMarkdown() ---------------------------------------------------

var delimCell = regexp.MustCompile(`^:?-+:?$`)

// splitRow splits a GFM table row on unescaped pipes.
func splitRow(line string) []string {
	s := strings.TrimSpace(line)
	s = strings.TrimPrefix(s, "|")
	var cells []string
	var cur strings.Builder
	for i := 0; i < len(s); i++ {
		switch {
		case s[i] == '\\' && i+1 < len(s) && s[i+1] == '|':
			cur.WriteByte('|')
			i++
		case s[i] == '|':
			cells = append(cells, strings.Trim(cur.String(), " "))
			cur.Reset()
		default:
			cur.WriteByte(s[i])
		}
	}
	if rest := strings.Trim(cur.String(), " "); rest != "" {
		cells = append(cells, rest) // row without a closing pipe
	}
	return cells
}

func viewMarkdown(path string, exps []*sheetExp) (viewResult, string) {
	md, _, err := tabula.Open(path).ToMarkdown()
	if err != nil {
		return viewResult{problem: "error", detail: err.Error()}, ""
	}
	return parseMarkdown(md, exps)
}

// parseMarkdown reads the "## <sheet>" sections of a workbook rendering; exps are the sheets expected, in order.
func parseMarkdown(md string, exps []*sheetExp) (viewResult, string) {
	type section struct {
		name   string
		tables [][]string // each table: its lines
	}
	var secs []*section
	inTable := false
	for _, line := range strings.Split(md, "\n") {
		switch {
		case strings.HasPrefix(line, "## "):
			secs = append(secs, &section{name: strings.TrimPrefix(line, "## ")})
			inTable = false
		case strings.TrimSpace(line) == "":
			inTable = false
		case strings.HasPrefix(line, "|"):
			if len(secs) == 0 {
				return viewResult{problem: "table-before-heading", detail: md}, md
			}
			s := secs[len(secs)-1]
			if !inTable {
				s.tables = append(s.tables, nil)
				inTable = true
			}
			s.tables[len(s.tables)-1] = append(s.tables[len(s.tables)-1], line)
		default:
			return viewResult{problem: "line-outside-table", detail: fmt.Sprintf("line %q is neither a heading nor a table row", line)}, md
		}
	}
	if len(secs) != len(exps) {
		return viewResult{problem: "sheet-count", detail: fmt.Sprintf("%d sheet headings for %d declared sheets", len(secs), len(exps))}, md
	}
	var v viewResult
	for i, s := range secs {
		if s.name != exps[i].name {
			return viewResult{problem: "sheet-order", detail: fmt.Sprintf("heading %d is %q, declared sheet %q", i, s.name, exps[i].name)}, md
		}
		if len(s.tables) > 1 {
			return viewResult{problem: "several-tables", detail: fmt.Sprintf("sheet %s is rendered as %d tables", s.name, len(s.tables))}, md
		}
		var cells []acell
		if len(s.tables) == 1 {
			t := s.tables[0]
			if len(t) < 2 {
				return viewResult{problem: "not-a-gfm-table", detail: "table without delimiter row"}, md
			}
			head, delim := splitRow(t[0]), splitRow(t[1])
			if len(head) != len(delim) {
				return viewResult{problem: "not-a-gfm-table", detail: fmt.Sprintf("header has %d cells, delimiter row %d", len(head), len(delim))}, md
			}
			for _, d := range delim {
				if !delimCell.MatchString(d) {
					return viewResult{problem: "not-a-gfm-table", detail: fmt.Sprintf("delimiter cell %q", d)}, md
				}
			}
			tr := 0
			for li, line := range t {
				if li == 1 {
					continue
				}
				row := splitRow(line)
				for c, txt := range row {
					if c >= len(head) {
						break // GFM ignores excess cells
					}
					if txt != "" {
						cells = append(cells, acell{tr, c, txt})
					}
				}
				tr++
			}
		}
		v.sheets = append(v.sheets, cells)
	}
	return v, md
}

// ---- (4) document model: tabula.Open(f).Document() ----------------------------------------------

func viewModel(path string, exps []*sheetExp) viewResult {
	doc, _, err := tabula.Open(path).Document()
	if err != nil {
		return viewResult{problem: "error", detail: err.Error()}
	}
	if doc == nil {
		return viewResult{problem: "nil-document"}
	}
	if len(doc.Pages) != len(exps) {
		return viewResult{problem: "sheet-count", detail: fmt.Sprintf("%d pages for %d declared sheets", len(doc.Pages), len(exps))}
	}
	var v viewResult
	for _, p := range doc.Pages {
		var tables []*model.Table
		for _, el := range p.Elements {
			if t, ok := el.(*model.Table); ok {
				tables = append(tables, t)
			}
		}
		if len(tables) > 1 {
			return viewResult{problem: "several-tables", detail: fmt.Sprintf("page %d has %d tables", p.Number, len(tables))}
		}
		var cells []acell
		if len(tables) == 1 {
			for r, row := range tables[0].Rows {
				for c, cell := range row {
					if cell.Text != "" {
						cells = append(cells, acell{r, c, cell.Text})
					}
				}
			}
		}
		v.sheets = append(v.sheets, cells)
	}
	return v
}
