package main

import (
	"fmt"

	"github.com/tsawler/tabula/xlsx"
	"verif/internal/gen/xlsxw"
	"verif/internal/harness"
)

const maxCol = 18277 // ZZZ

var codecRows = []int{1, 2, 9, 10, 99, 100, 1048576}

// codecSpace: every column x the row set, every exported conversion against the independent codec.
func codecSpace(e *harness.Env) {
	// the reference codec itself: round trip and strictly increasing (length, then lexicographic) names,
	// hence a bijection between 0..maxCol and the names A..ZZZ
	prev := ""
	for c := 0; c <= maxCol; c++ {
		n := xlsxw.ColName(c)
		if i, ok := xlsxw.ColIndex(n); !ok || i != c {
			panic("reference codec round trip broken at " + n)
		}
		if c > 0 && !(len(prev) < len(n) || (len(prev) == len(n) && prev < n)) {
			panic("reference codec not monotone at " + n)
		}
		prev = n
	}
	if xlsxw.ColName(25) != "Z" || xlsxw.ColName(26) != "AA" || xlsxw.ColName(701) != "ZZ" || xlsxw.ColName(702) != "AAA" || xlsxw.ColName(16383) != "XFD" || xlsxw.ColName(maxCol) != "ZZZ" {
		panic("reference codec landmarks")
	}
	cols := make([]int, 0, maxCol+4)
	for c := 0; c <= maxCol; c++ {
		cols = append(cols, c)
	}
	cols = append(cols, 18278, 475253, 475254) // AAAA, ZZZZ, AAAAA
	for _, c := range cols {
		desc := harness.D("space", "codec", "col", c)
		if !e.Own(desc) {
			continue
		}
		e.Begin(desc)
		var sig, det string
		psig, pdet := harness.Guard(func() { sig, det = codecColumn(c) })
		switch {
		case psig != "":
			e.Fail(desc, psig, pdet, nil)
		case sig != "":
			e.Fail(desc, sig, det, nil)
		default:
			e.Pass(desc, c >= 26, fmt.Sprintf("codec:letters%d", len(xlsxw.ColName(c))))
		}
	}
	malformed(e)
}

func codecColumn(c int) (string, string) {
	name := xlsxw.ColName(c)
	if got := xlsx.IndexToColumn(c); got != name {
		return "codec:IndexToColumn", fmt.Sprintf("IndexToColumn(%d)=%q, want %q", c, got, name)
	}
	if got := xlsx.ColumnToIndex(name); got != c {
		return "codec:ColumnToIndex", fmt.Sprintf("ColumnToIndex(%q)=%d, want %d", name, got, c)
	}
	partner := maxCol - c
	if partner < 0 {
		partner = 0
	}
	for i, r1 := range codecRows {
		row := r1 - 1
		ref := xlsxw.Ref(c, row)
		if got := xlsx.CellRef(c, row); got != ref {
			return "codec:CellRef", fmt.Sprintf("CellRef(%d,%d)=%q, want %q", c, row, got, ref)
		}
		gc, gr, err := xlsx.ParseCellRef(ref)
		if err != nil || gc != c || gr != row {
			return "codec:ParseCellRef", fmt.Sprintf("ParseCellRef(%q)=(%d,%d,%v), want (%d,%d)", ref, gc, gr, err, c, row)
		}
		row2 := codecRows[(i+3)%len(codecRows)] - 1
		rng := ref + ":" + xlsxw.Ref(partner, row2)
		c1, r1g, c2, r2g, err := xlsx.ParseRangeRef(rng)
		if err != nil || c1 != c || r1g != row || c2 != partner || r2g != row2 {
			return "codec:ParseRangeRef", fmt.Sprintf("ParseRangeRef(%q)=(%d,%d,%d,%d,%v), want (%d,%d,%d,%d)", rng, c1, r1g, c2, r2g, err, c, row, partner, row2)
		}
	}
	return "", ""
}

// malformed: strings that cannot denote a cell / range must be refused. Strings that are merely
// non-canonical spellings of a reference (lower case, leading zero, explicit sign, $-anchors) are
// outside "A1 notation" in the strict sense; the statement does not say what happens to them, so
// they only have to be refused or read with their canonical meaning (recorded as outcome class).
func malformed(e *harness.Env) {
	strict := []string{"", "A", "ZZ", "1", "12", "1A", "A0", "A-1", "A1B", "A 1", " A1", "A1 ", "A1:B2", "A1.5", "A1e2", "É1", "A١", "@1", "[1", "`1", "{1", "A1\n", "A99999999999999999999"}
	for _, s := range strict {
		desc := harness.D("space", "malformed", "ref", fmt.Sprintf("%q", s))
		if !e.Own(desc) {
			continue
		}
		e.Begin(desc)
		var c, r int
		var err error
		psig, pdet := harness.Guard(func() { c, r, err = xlsx.ParseCellRef(s) })
		switch {
		case psig != "":
			e.Fail(desc, psig, pdet, nil)
		case err == nil:
			e.Fail(desc, "codec:malformed-ref-accepted", fmt.Sprintf("ParseCellRef(%q)=(%d,%d) without error; the string denotes no cell", s, c, r), nil)
		default:
			e.Pass(desc, true, "malformed:refused")
		}
	}
	lenient := []struct {
		s    string
		c, r int
	}{{"a1", 0, 0}, {"aB7", 27, 6}, {"A01", 0, 0}, {"A+1", 0, 0}, {"zz2", 701, 1}}
	for _, l := range lenient {
		desc := harness.D("space", "noncanonical", "ref", fmt.Sprintf("%q", l.s))
		if !e.Own(desc) {
			continue
		}
		e.Begin(desc)
		var c, r int
		var err error
		psig, pdet := harness.Guard(func() { c, r, err = xlsx.ParseCellRef(l.s) })
		switch {
		case psig != "":
			e.Fail(desc, psig, pdet, nil)
		case err != nil:
			e.Pass(desc, true, "noncanonical:refused")
		case c == l.c && r == l.r:
			e.Pass(desc, true, "noncanonical:read-as-canonical")
		default:
			e.Fail(desc, "codec:noncanonical-ref-misread", fmt.Sprintf("ParseCellRef(%q)=(%d,%d), canonical meaning (%d,%d)", l.s, c, r, l.c, l.r), nil)
		}
	}
	for _, s := range []string{"", "A1", "A1:", ":B2", "A1:B2:C3", "A1-B2", "A1:B", "A:B2", "A1;B2", "A0:B2", "A1:B0"} {
		desc := harness.D("space", "malformed", "range", fmt.Sprintf("%q", s))
		if !e.Own(desc) {
			continue
		}
		e.Begin(desc)
		var err error
		var a, b, c, d int
		psig, pdet := harness.Guard(func() { a, b, c, d, err = xlsx.ParseRangeRef(s) })
		switch {
		case psig != "":
			e.Fail(desc, psig, pdet, nil)
		case err == nil:
			e.Fail(desc, "codec:malformed-range-accepted", fmt.Sprintf("ParseRangeRef(%q)=(%d,%d,%d,%d) without error", s, a, b, c, d), nil)
		default:
			e.Pass(desc, true, "malformed:refused")
		}
	}
	// negative / out-of-domain indices must not produce a column name that parses back to a valid column
	for _, i := range []int{-1, -26, -27} {
		desc := harness.D("space", "malformed", "index", i)
		if !e.Own(desc) {
			continue
		}
		e.Begin(desc)
		var s string
		psig, pdet := harness.Guard(func() { s = xlsx.IndexToColumn(i) })
		switch {
		case psig != "":
			e.Fail(desc, psig, pdet, nil)
		case s != "" && xlsx.ColumnToIndex(s) >= 0:
			e.Fail(desc, "codec:negative-index-named", fmt.Sprintf("IndexToColumn(%d)=%q, which names column %d", i, s, xlsx.ColumnToIndex(s)), nil)
		default:
			e.Pass(desc, true, "malformed:refused")
		}
	}
	for _, s := range []string{"", "1", "A1", "A B", "É", "A-"} {
		desc := harness.D("space", "malformed", "column", fmt.Sprintf("%q", s))
		if !e.Own(desc) {
			continue
		}
		e.Begin(desc)
		var i int
		psig, pdet := harness.Guard(func() { i = xlsx.ColumnToIndex(s) })
		switch {
		case psig != "":
			e.Fail(desc, psig, pdet, nil)
		case i >= 0:
			e.Fail(desc, "codec:malformed-column-accepted", fmt.Sprintf("ColumnToIndex(%q)=%d", s, i), nil)
		default:
			e.Pass(desc, true, "malformed:refused")
		}
	}
}
