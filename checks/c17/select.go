package main

import (
	"fmt"
	"os"
	"path/filepath"
	"sort"
	"strings"

	"github.com/tsawler/tabula/model"
	"github.com/tsawler/tabula/rag"
	"github.com/tsawler/tabula/xlsx"
	"verif/internal/gen/xlsxw"
	"verif/internal/harness"
)

// ---- (select) the reader's options and call sequences on ONE reader ------------------------------------
//
// ExtractOptions.Sheets ("Which sheets to include (0-indexed, empty = all)"; out-of-range indices are
// skipped by the documented loop) is part of the space: every sequence of sheet indices of length 1..n
// (repeats, descending and non-prefix ones included) of 2- and 3-sheet workbooks, plus sequences with
// out-of-range entries, through TextWithOptions / MarkdownWithOptions / MarkdownWithRAGOptions.
//   - follow=none: the selecting call itself — every selected sheet's values at their addresses, nothing
//     of an unselected sheet. Reading of the contract: the sheets appear as listed (in-range entries, in the
//     order given, a repeated index repeated) or, also accepted, as the set they name in workbook order.
//   - follow=grid|text|md|model|tables: the selecting call, then the unrestricted view on the SAME reader;
//     its result must equal the same view of a fresh reader of the same file (a query must not change
//     what the reader holds). Fresh-reader views are judged by the other sub-spaces.
func selectSpace(e *harness.Env, tmp string) {
	type cfg struct {
		merges []string
		cells  []string
	}
	books := [][]cfg{
		{{nil, []string{"A1", "B2"}}, {nil, []string{"B1"}}},
		{{[]string{"A1:B2"}, []string{"A1", "C3"}}, {nil, []string{"A1", "A2", "B2"}}},
		{{nil, []string{"C3"}}, {[]string{"B1:C1"}, []string{"B1", "A2"}}},
		{{nil, []string{"A1"}}, {nil, []string{"B1", "A2"}}, {nil, []string{"C3"}}},
		{{[]string{"A2:A3"}, []string{"A2", "B1"}}, {nil, nil}, {nil, []string{"A1", "A3"}}},
		{{nil, []string{"B2"}}, {nil, []string{"A1", "B1"}}, {[]string{"A1:B2"}, []string{"A1", "C1"}}},
	}
	for bi, book := range books {
		n := len(book)
		var sheets []lsheet
		k := 0
		for si, c := range book {
			var cells []lcell
			for _, a := range c.cells {
				cells = append(cells, mk(si, a, rotKinds(bi, k)))
				k++
			}
			sheets = append(sheets, lsheet{name: fmt.Sprintf("S%d", si+1), cells: cells, merges: c.merges})
		}
		// all index sequences of length 1..n, then sequences with out-of-range entries
		var sels [][]int
		var rec func(cur []int)
		rec = func(cur []int) {
			if len(cur) > 0 {
				sels = append(sels, append([]int{}, cur...))
			}
			if len(cur) == n {
				return
			}
			for i := 0; i < n; i++ {
				rec(append(cur, i))
			}
		}
		rec(nil)
		sels = append(sels, []int{n}, []int{-1}, []int{n, n - 1}, []int{n - 1, n, 0}, []int{-1, 1}, []int{n + 5, -3})
		for _, sel := range sels {
			for _, method := range []string{"text", "md", "mdrag"} {
				for _, follow := range []string{"none", "grid", "text", "md", "model", "tables"} {
					desc := baseDesc("select", sheets, "in", wbopts{}, "book", fmt.Sprint(bi), "sel", strings.ReplaceAll(strings.Trim(fmt.Sprint(sel), "[]"), " ", ","), "call", method, "follow", follow)
					if !e.Own(desc) {
						continue
					}
					e.Begin(desc)
					data := build(sheets, wbopts{}).Bytes()
					path := filepath.Join(tmp, "c.xlsx")
					if err := os.WriteFile(path, data, 0o644); err != nil {
						panic(err)
					}
					var sig, det string
					psig, pdet := harness.Guard(func() { sig, det = selectCase(path, sheets, sel, method, follow) })
					files := map[string][]byte{"input.xlsx": data}
					switch {
					case psig != "":
						e.Fail(desc, psig, pdet, files)
					case sig != "":
						e.Fail(desc, sig, det+"\ninput cells: "+describe(sheets), files)
					default:
						e.Pass(desc, true, fmt.Sprintf("select%d:%s:%s", n, method, follow))
					}
				}
			}
		}
	}
}

func selectingCall(rd *xlsx.Reader, sel []int, method string) (string, error) {
	opts := xlsx.ExtractOptions{Sheets: sel}
	switch method {
	case "text":
		return rd.TextWithOptions(opts)
	case "md":
		return rd.MarkdownWithOptions(opts)
	default:
		return rd.MarkdownWithRAGOptions(opts, rag.MarkdownOptions{})
	}
}

func selectCase(path string, sheets []lsheet, sel []int, method, follow string) (string, string) {
	rd, err := xlsx.Open(path)
	if err != nil {
		return "open-error", err.Error()
	}
	defer rd.Close()
	out, err := selectingCall(rd, sel, method)
	if err != nil {
		return "selecting-call-error", err.Error()
	}
	if follow != "none" {
		fresh, err := xlsx.Open(path)
		if err != nil {
			return "open-error", err.Error()
		}
		defer fresh.Close()
		got, want := dumpView(rd, follow), dumpView(fresh, follow)
		if got != want {
			return "after-selection:differs-from-fresh-reader", fmt.Sprintf("%s on the reader after %s(Sheets:%v):\n%s\nsame call on a fresh reader:\n%s", follow, method, sel, clip(got), clip(want))
		}
		return "", ""
	}
	// the selecting call itself: two accepted readings of the selection
	var listed []int
	for _, i := range sel {
		if i >= 0 && i < len(sheets) {
			listed = append(listed, i)
		}
	}
	asSet := append([]int{}, listed...)
	sort.Ints(asSet)
	w := 0
	for i, v := range asSet {
		if i == 0 || v != asSet[i-1] {
			asSet[w] = v
			w++
		}
	}
	asSet = asSet[:w]
	var firstSig, firstDet string
	for ri, reading := range [][]int{listed, asSet} {
		if len(reading) == 0 {
			// nothing in range: the loop selects no sheet — an empty rendering is the only thing demanded
			if strings.TrimSpace(out) == "" {
				return "", ""
			}
			// (an implementation could also fall back to all sheets; not observed, not accepted silently)
			return "selection:output-for-empty-selection", fmt.Sprintf("%s(Sheets:%v) has no in-range index but returned %q", method, sel, clip(out))
		}
		var exps []*sheetExp
		for _, i := range reading {
			exps = append(exps, expect(sheets[i]))
		}
		var classes []string
		var det string
		if method == "text" {
			classes, det = match(exps, textCells(out), false, true)
		} else {
			v, _ := parseMarkdown(out, exps)
			if v.problem != "" {
				classes, det = []string{v.problem}, v.detail
			} else {
				set := map[string]bool{}
				for i, exp := range exps {
					cl, d := match([]*sheetExp{exp}, v.sheets[i], false, false)
					for _, c := range cl {
						set[c] = true
					}
					det += d
				}
				for c := range set {
					classes = append(classes, c)
				}
				sort.Strings(classes)
			}
		}
		if len(classes) == 0 {
			return "", ""
		}
		if ri == 0 {
			firstSig, firstDet = "selection:"+strings.Join(classes, "+"), fmt.Sprintf("%s(Sheets:%v) returned\n%s\n%s", method, sel, clip(out), det)
		}
	}
	return firstSig, firstDet
}

func clip(s string) string {
	if len(s) > 600 {
		return s[:600] + "…"
	}
	return s
}

// dumpView renders one unrestricted view of an open reader canonically.
func dumpView(rd *xlsx.Reader, view string) string {
	var b strings.Builder
	switch view {
	case "grid":
		fmt.Fprintf(&b, "sheets=%d names=%q\n", rd.SheetCount(), rd.SheetNames())
		for i := 0; i < rd.SheetCount(); i++ {
			sh, err := rd.Sheet(i)
			if err != nil {
				fmt.Fprintf(&b, "Sheet(%d): %v\n", i, err)
				continue
			}
			fmt.Fprintf(&b, "Sheet(%d) name=%q index=%d rows=%d cols=%d merged=%v\n", i, sh.Name, sh.Index, sh.RowCount(), sh.ColCount(), sh.MergedRegions)
			for r := 0; r < sh.RowCount(); r++ {
				for c := 0; c < sh.ColCount(); c++ {
					if cell := sh.Cell(r, c); cell != nil && (cell.Value != "" || cell.IsMerged) {
						fmt.Fprintf(&b, "  %s=%q m=%v root=%v span=%dx%d\n", xlsxw.Ref(c, r), cell.Value, cell.IsMerged, cell.IsMergeRoot, cell.MergeRows, cell.MergeCols)
					}
				}
			}
			if byName, err := rd.SheetByName(sh.Name); err != nil || byName != sh {
				fmt.Fprintf(&b, "  SheetByName(%q) is not Sheet(%d)\n", sh.Name, i)
			}
		}
	case "text":
		t, err := rd.Text()
		fmt.Fprintf(&b, "%q %v", t, err)
	case "md":
		t, err := rd.Markdown()
		fmt.Fprintf(&b, "%q %v", t, err)
	case "model":
		doc, err := rd.Document()
		if err != nil || doc == nil {
			fmt.Fprintf(&b, "error %v", err)
			break
		}
		for _, p := range doc.Pages {
			fmt.Fprintf(&b, "page %d elements=%d\n", p.Number, len(p.Elements))
			for _, el := range p.Elements {
				if t, ok := el.(*model.Table); ok {
					for r, row := range t.Rows {
						for c, cell := range row {
							fmt.Fprintf(&b, "  [%d][%d]=%q span=%dx%d hdr=%v\n", r, c, cell.Text, cell.RowSpan, cell.ColSpan, cell.IsHeader)
						}
					}
				}
			}
		}
	case "tables":
		for _, t := range rd.Tables() {
			fmt.Fprintf(&b, "table %q headers=%q rows=%q\n", t.Name, t.Headers, t.Rows)
		}
	}
	return b.String()
}
