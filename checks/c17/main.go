// C17 — Spreadsheet cells land at their addressed grid position.
//
// Bounded-exhaustive enumeration of (a) the A1 reference codec over every column 0..18277 x
// {1,2,9,10,99,100,1048576} and (b) logical workbooks written by the independent writer
// verif/internal/gen/xlsxw, each read back through the four views the property names:
// the sheet grid (xlsx.Open(f).Sheet(i).Cell(r,c)), the tab-separated text (tabula.Open(f).Text()),
// the Markdown table (ToMarkdown()) and the document model (Document()).
//
// Reading of the statement (weakest defensible one, see match.go):
//   - grid: absolute — Cell(r,c) shows the value of the cell whose reference names row r+1, column c+1;
//     a covered cell of a merged region counts as blank when it is empty or when the grid itself
//     flags it (IsMerged && !IsMergeRoot).
//   - text / Markdown / model: tabula documents the TSV as the dense grid from A1 and the
//     Markdown / model table as the "actual content bounds (skip empty rows/cols)". The oracle accepts
//     any uniform window: one offset per sheet with view row 0 / column 0 at or before the first
//     content row / column; every displayed value must sit at its address relative to that offset and
//     every other field must be blank (merged: value at the top-left only). TSV blocks of several
//     sheets must follow in declared order, separated by at least one blank line.
//   - a line break / tab inside a value may be shown as such or as a blank, but must stay in its field.
package main

import (
	"bytes"
	"encoding/xml"
	"fmt"
	"io"
	"os"
	"path/filepath"
	"runtime/debug"
	"sort"
	"strings"

	"verif/internal/gen/xlsxw"
	"verif/internal/harness"
)

func main() { harness.Main("C17", "exploration", run) }

var views = []string{"grid", "text", "md", "model"}

// the address alphabet of DESIGN.md C17
var addrs = []string{"A1", "B1", "A2", "C3", "Z1", "AA1", "AB7", "ZZ2", "A200"}

type lcell struct {
	addr      string
	kind      xlsxw.Kind
	value     string
	ws        string // "", "nl", "tab": the value contains a line break / a tab
	formula   string
	explicitT bool
}

type lsheet struct {
	name   string
	cells  []lcell // in writing order
	merges []string
	noDim  bool // this sheet is written without <dimension>
}

type wbopts struct {
	reverseSST, abs, noStyles, noDim, swapParts, relIDs, deflate bool
	padSST                                                       int
}

var errLits = []string{"#DIV/0!", "#N/A", "#REF!", "#VALUE!", "#NAME?", "#NUM!", "#NULL!"}
var kindTag = map[xlsxw.Kind]string{xlsxw.Shared: "sh", xlsxw.SharedRich: "sr", xlsxw.Inline: "in", xlsxw.InlineRich: "ir", xlsxw.FormulaStr: "fs"}

// mk builds the logical cell at addr: its displayed value is a function of (sheet, address, kind),
// distinct per address wherever the kind allows it, so that a misplaced value is recognisable.
func mk(sheet int, addr string, k xlsxw.Kind) lcell {
	c, r, err := xlsxw.ParseRef(addr)
	if err != nil {
		panic(err)
	}
	n := (c*7+r*13)%89 + 2 + 100*sheet
	lc := lcell{addr: addr, kind: k}
	switch k {
	case xlsxw.Number:
		switch n % 3 {
		case 0:
			lc.value = fmt.Sprint(n)
		case 1:
			lc.value = fmt.Sprintf("%d.5", n)
		default:
			lc.value = fmt.Sprintf("-%d", n)
		}
	case xlsxw.Bool:
		lc.value = []string{"TRUE", "FALSE"}[(c+r+sheet)%2]
	case xlsxw.Error:
		lc.value = errLits[(c+r+sheet)%len(errLits)]
	case xlsxw.Blank:
	default:
		lc.value = kindTag[k] + addr
		if sheet > 0 {
			lc.value += fmt.Sprintf("s%d", sheet+1)
		}
	}
	return lc
}

func withWS(lc lcell, ws string) lcell {
	lc.ws = ws
	switch ws {
	case "nl":
		lc.value = lc.value + "\nz2"
	case "tab":
		lc.value = lc.value + "\ty2"
	}
	return lc
}

func build(sheets []lsheet, o wbopts) *xlsxw.Workbook {
	wb := &xlsxw.Workbook{ReverseSST: o.reverseSST, PadSST: o.padSST, AbsoluteTargets: o.abs, NoStyles: o.noStyles, Deflate: o.deflate}
	for i, s := range sheets {
		xs := xlsxw.Sheet{Name: s.name, Merges: s.merges, NoDimension: o.noDim || s.noDim}
		for _, c := range s.cells {
			xs.Cells = append(xs.Cells, xlsxw.Cell{Ref: c.addr, Kind: c.kind, Value: c.value, Formula: c.formula, ExplicitT: c.explicitT})
		}
		if o.swapParts && len(sheets) > 1 {
			// the part numbers disagree with the declared order
			xs.Path = fmt.Sprintf("xl/worksheets/sheet%d.xml", len(sheets)-i)
		}
		if o.relIDs {
			xs.RelID = fmt.Sprintf("rel%c", 'Z'-i)
		}
		wb.Sheets = append(wb.Sheets, xs)
	}
	return wb
}

func expect(s lsheet) *sheetExp {
	var cells []ecell
	for _, lc := range s.cells {
		c, r, _ := xlsxw.ParseRef(lc.addr)
		e := ecell{r: r, c: c, want: lc.value, raw: lc.value, kind: lc.kind.String()}
		for _, m := range s.merges {
			c1, r1, c2, r2, _ := xlsxw.ParseRange(m)
			if c >= c1 && c <= c2 && r >= r1 && r <= r2 && !(c == c1 && r == r1) {
				e.covered = e.want != ""
				e.want = ""
			}
		}
		cells = append(cells, e)
	}
	return newSheetExp(s.name, cells)
}

type caseSpec struct {
	desc       string // without the view token
	sheets     []lsheet
	opts       wbopts
	nontrivial bool
	outcome    string
}

// runCase evaluates the views of one workbook; every (workbook, view) pair is one harness case.
func runCase(e *harness.Env, tmp string, cs caseSpec) {
	var path string
	var data []byte
	var exps []*sheetExp
	for _, view := range views {
		desc := cs.desc + " view=" + view
		if !e.Own(desc) {
			continue
		}
		e.Begin(desc)
		if data == nil {
			data = build(cs.sheets, cs.opts).Bytes()
			path = filepath.Join(tmp, "c.xlsx")
			if err := os.WriteFile(path, data, 0o644); err != nil {
				panic(err)
			}
			for _, s := range cs.sheets {
				exps = append(exps, expect(s))
			}
		}
		var classes []string
		var detail, raw string
		var notes []string
		psig, pdet := harness.Guard(func() {
			classes, detail, raw, notes = observe(view, path, cs.sheets, exps)
		})
		files := map[string][]byte{"input.xlsx": data}
		if raw != "" {
			files["output.txt"] = []byte(raw)
		}
		if psig != "" {
			e.Fail(desc, psig, pdet, files)
			continue
		}
		if len(classes) > 0 {
			e.Fail(desc, strings.Join(classes, "+"), detail+"\ninput cells: "+describe(cs.sheets), files)
			continue
		}
		out := cs.outcome + ":" + view
		for _, n := range notes {
			out += ":" + n
		}
		e.Pass(desc, cs.nontrivial, out)
	}
}

func describe(sheets []lsheet) string {
	var b strings.Builder
	for _, s := range sheets {
		fmt.Fprintf(&b, "[%s:", s.name)
		for _, c := range s.cells {
			fmt.Fprintf(&b, " %s=%s(%q)", c.addr, c.kind, c.value)
		}
		if len(s.merges) > 0 {
			fmt.Fprintf(&b, " merged %v", s.merges)
		}
		b.WriteString("] ")
	}
	return b.String()
}

// observe reads one view and compares it with the expectation.
func observe(view, path string, sheets []lsheet, exps []*sheetExp) (classes []string, detail, raw string, notes []string) {
	perSheet := func(v viewResult, fixed bool) {
		set := map[string]bool{}
		for i, exp := range exps {
			cl, det := match([]*sheetExp{exp}, v.sheets[i], fixed, false)
			for _, c := range cl {
				set[c] = true
			}
			if det != "" {
				detail += fmt.Sprintf("sheet %s: %s", exp.name, det)
			}
		}
		for c := range set {
			classes = append(classes, c)
		}
		sort.Strings(classes)
	}
	switch view {
	case "grid":
		v := viewGrid(path, exps)
		if v.problem != "" {
			return []string{v.problem}, v.detail, "", nil
		}
		notes = v.notes
		perSheet(v, true)
	case "md":
		v, md := viewMarkdown(path, exps)
		raw = md
		if v.problem != "" {
			return []string{v.problem}, v.detail, raw, nil
		}
		perSheet(v, false)
	case "model":
		v := viewModel(path, exps)
		if v.problem != "" {
			return []string{v.problem}, v.detail, "", nil
		}
		perSheet(v, false)
	case "text":
		v, text := viewText(path)
		raw = text
		if v.problem != "" {
			return []string{v.problem}, v.detail, raw, nil
		}
		classes, detail = match(exps, v.sheets[0], false, true)
		if len(classes) > 0 {
			// Diagnosis: does the TSV carry the raw line break / tab of a value, so that the value no
			// longer stays in one field? Repair exactly that in a copy and see what else is wrong.
			repaired, broke := text, map[string]bool{}
			for si, s := range sheets {
				for _, lc := range s.cells {
					if lc.ws == "" {
						continue
					}
					if ex := exps[si].byPos[pos(lc.addr)]; ex == nil || ex.want == "" {
						continue
					}
					if strings.Contains(repaired, lc.value) {
						repaired = strings.ReplaceAll(repaired, lc.value, norm(lc.value))
						broke[map[string]string{"nl": "raw-linebreak-in-field", "tab": "raw-tab-in-field"}[lc.ws]] = true
					}
				}
			}
			if len(broke) > 0 {
				rest, _ := match(exps, textCells(repaired), false, true)
				classes = rest
				for b := range broke {
					classes = append(classes, b)
				}
				sort.Strings(classes)
				detail = "a cell value is written into the tab-separated text with its raw line break / tab, which splits the row / field\n" + detail
			}
		}
	}
	return classes, detail, raw, notes
}

func pos(addr string) [2]int {
	c, r, _ := xlsxw.ParseRef(addr)
	return [2]int{r, c}
}

// ---- descriptor helpers ----------------------------------------------------------------------

func cellsToken(cells []lcell) string {
	if len(cells) == 0 {
		return "none"
	}
	var p []string
	for _, c := range cells {
		t := c.addr + ":" + c.kind.String()
		if c.ws != "" {
			t += ":" + c.ws
		}
		if c.formula != "" {
			t += ":f"
		}
		if c.explicitT {
			t += ":t"
		}
		p = append(p, t)
	}
	return strings.Join(p, ",")
}

func yn(b bool) string {
	if b {
		return "y"
	}
	return "n"
}

// features derives the descriptor tokens that findings can match on: irich (an inline rich-text
// cell is present), stray (a cell with a value lies inside a merged region, not at its top-left),
// ws (a value contains a line break / tab).
func features(sheets []lsheet) (irich, stray bool, ws string) {
	ws = "-"
	for _, s := range sheets {
		for _, c := range s.cells {
			if c.kind == xlsxw.InlineRich {
				irich = true
			}
			if c.ws != "" {
				ws = c.ws
			}
			if len(s.merges) > 0 && c.kind != xlsxw.Blank {
				p := pos(c.addr)
				for _, m := range s.merges {
					c1, r1, c2, r2, _ := xlsxw.ParseRange(m)
					if p[1] >= c1 && p[1] <= c2 && p[0] >= r1 && p[0] <= r2 && !(p[1] == c1 && p[0] == r1) {
						stray = true
					}
				}
			}
		}
	}
	return
}

// ordered returns the cells in the named writing order.
func ordered(cells []lcell, order string) []lcell {
	out := append([]lcell{}, cells...)
	sort.SliceStable(out, func(i, j int) bool {
		pi, pj := pos(out[i].addr), pos(out[j].addr)
		if pi[0] != pj[0] {
			return pi[0] < pj[0]
		}
		return pi[1] < pj[1]
	})
	switch order {
	case "in":
	case "rev": // rows descending, cells descending
		for i, j := 0, len(out)-1; i < j; i, j = i+1, j-1 {
			out[i], out[j] = out[j], out[i]
		}
	case "rowsrev": // rows descending, cells ascending inside a row
		sort.SliceStable(out, func(i, j int) bool { return pos(out[i].addr)[0] > pos(out[j].addr)[0] })
	case "cellsrev": // rows ascending, cells descending inside a row
		sort.SliceStable(out, func(i, j int) bool {
			pi, pj := pos(out[i].addr), pos(out[j].addr)
			if pi[0] != pj[0] {
				return pi[0] < pj[0]
			}
			return pi[1] > pj[1]
		})
	case "rot": // rotate the row-major order by one: the first row comes last
		if len(out) > 1 {
			out = append(out[1:], out[0])
		}
	default:
		panic(order)
	}
	return out
}

// writeKey identifies the written structure (row order, cell order) so that orders which produce
// the same file for a given subset are enumerated once.
func writeKey(cells []lcell) string {
	var rows []int
	by := map[int][]string{}
	for _, c := range cells {
		p := pos(c.addr)
		if _, ok := by[p[0]]; !ok {
			rows = append(rows, p[0])
		}
		by[p[0]] = append(by[p[0]], c.addr)
	}
	var b strings.Builder
	for _, r := range rows {
		fmt.Fprintf(&b, "%d:%s;", r, strings.Join(by[r], ","))
	}
	return b.String()
}

// subsets enumerates all subsets of size lo..hi of n indices, in a fixed order.
func subsets(n, lo, hi int) [][]int {
	var out [][]int
	var rec func(start int, cur []int)
	rec = func(start int, cur []int) {
		if len(cur) >= lo {
			out = append(out, append([]int{}, cur...))
		}
		if len(cur) == hi {
			return
		}
		for i := start; i < n; i++ {
			rec(i+1, append(cur, i))
		}
	}
	rec(0, nil)
	return out
}

func run(e *harness.Env) {
	e.Rule = "codec: every column 0..18277 (+AAAA, ZZZZ, AAAAA) x rows {1,2,9,10,99,100,1048576} through ParseCellRef/CellRef/ColumnToIndex/IndexToColumn/ParseRangeRef against an independent codec, plus fixed lists of malformed / non-canonical references. " +
		"Workbooks, one harness case per (workbook, view), view in {grid,text,md,model}: " +
		"(cells) every subset of <=3 of the 9 addresses {A1,B1,A2,C3,Z1,AA1,AB7,ZZ2,A200} x kind vectors over the 8 cell kinds x writing orders " +
		"[thorough: all 8^k vectors x every distinct order among in/reversed/rows-reversed/cells-reversed/rotated; subsets spanning ZZ2+A200 (702x200 grid): the 64 stride vectors x in/reversed. " +
		"quick: all 8^k for k<=2, the 64 stride vectors (base+i*stride mod 8) for k=3, 8 rotations for ZZ2+A200 subsets; orders in/reversed]; " +
		"(merge) every subset of <=3 addresses (incl. none) x merged ranges {A1:B2 | B1:C1 | A2:A3 | B1:C1+A2:A3} x value in the last covered cell y/n x rotating kind vectors (8 thorough, 4 quick) x in/reversed; " +
		"(ws) a line break / tab inside a string value at every position of every subset of <=3 of 5 addresses x 5 string kinds x in/reversed; " +
		"(sheets) two sheets: every pair of subsets of <=2 of 5 addresses (incl. empty) x rotating kinds (8 / 2) x 4 package layouts (standard, part numbers swapped against declared order, absolute targets, custom relationship ids); " +
		"(xsheet) two sheets, each independently x merge layout {none, A1:B2, B1:C1, A2:A3, B1:C1+A2:A3} (quick: none, A1:B2, B1:C1+A2:A3) x every subset of <=2 of the addresses inside those regions (5 quick / 7 thorough, incl. the empty sheet) x rotating kinds (1 / 3) x <dimension> in both / only one sheet, plus 6^3 three-sheet workbooks: nothing of one sheet may show in another; " +
		"(select) 6 two-/three-sheet workbooks x ExtractOptions.Sheets = every index sequence of length 1..n (repeats, descending, non-prefix) + 6 sequences with out-of-range entries x selecting call {TextWithOptions, MarkdownWithOptions, MarkdownWithRAGOptions} x follow-up on the same reader {none: the selecting call's own output judged; grid, text, md, model, tables: must equal a fresh reader's}; " +
		"(sst) shared / rich shared strings with reversed, padded and reversed+padded string tables, one and two sheets; " +
		"(variants) t=\"n\", formula-cached number/bool/error/text, no <dimension>, no styles part, deflated members, styled blank cells before/after/below the content. " +
		"distinct = distinct descriptors; non-trivial = everything except a workbook whose only cell is A1 (any kind) and the single-letter columns of the codec"
	e.Assumptions = []string{
		"the writer verif/internal/gen/xlsxw emits valid SpreadsheetML (ECMA-376 part 1, 18.3/18.4) and its A1 codec (length-class construction) is correct; the codec's round trip and strict monotonicity over 0..18277 are re-verified at start-up",
		"Markdown is read with a small GFM table splitter (unescaped pipes, delimiter row, excess cells ignored)",
		"displayed value of a General-format number = its literal (only literals like 42, 17.5, -8 are generated)",
	}
	tmp := harness.Scratch()
	defer os.RemoveAll(tmp)
	selfTestWriter()
	// many short-lived parses: collect less often (the live heap is a few MB; a 702 x 200 grid is 20 MB)
	debug.SetGCPercent(1000)
	debug.SetMemoryLimit(3 << 30)

	// C17_SPACES (development only): comma-separated subset of the sub-spaces to run
	only := os.Getenv("C17_SPACES")
	want := func(n string) bool { return only == "" || strings.Contains(","+only+",", ","+n+",") }
	for _, sp := range []struct {
		name string
		f    func(*harness.Env, string)
	}{{"codec", func(e *harness.Env, _ string) { codecSpace(e) }}, {"cells", cellsSpace}, {"merge", mergeSpace}, {"ws", wsSpace},
		{"sheets", sheetsSpace}, {"xsheet", xsheetSpace}, {"select", selectSpace}, {"sst", sstSpace}, {"variant", variantSpace}} {
		if want(sp.name) {
			sp.f(e, tmp)
		}
	}
}

// baseDesc builds the canonical "k=v k=v" descriptor (same shape as harness.D; all values are
// space-free by construction) without the per-value allocations, because every worker computes
// the descriptor of every case.
func baseDesc(space string, sheets []lsheet, order string, o wbopts, extra ...string) string {
	irich, stray, ws := features(sheets)
	var b strings.Builder
	b.Grow(160)
	b.WriteString("space=")
	b.WriteString(space)
	fmt.Fprintf(&b, " sheets=%d", len(sheets))
	for i, s := range sheets {
		fmt.Fprintf(&b, " s%d=", i+1)
		b.WriteString(cellsToken(s.cells))
	}
	merge := "-"
	for _, s := range sheets {
		if len(s.merges) > 0 {
			merge = strings.Join(s.merges, ",")
		}
	}
	if space == "xsheet" { // per sheet, in declared order
		var ms []string
		for _, s := range sheets {
			if len(s.merges) > 0 {
				ms = append(ms, strings.Join(s.merges, ","))
			} else {
				ms = append(ms, "-")
			}
		}
		merge = strings.Join(ms, "|")
	}
	b.WriteString(" order=" + order + " merge=" + merge + " stray=" + yn(stray) + " irich=" + yn(irich) + " ws=" + ws)
	for i := 0; i+1 < len(extra); i += 2 {
		b.WriteString(" " + extra[i] + "=" + extra[i+1])
	}
	return b.String()
}

// ---- (cells) subsets x kinds x orders --------------------------------------------------------------

var allOrders = []string{"in", "rev", "rowsrev", "cellsrev", "rot"}

// large: the subset spans ZZ2 and A200, i.e. a dense grid of 702 x 200 cells (about 35 ms per view
// instead of 0.2 ms). The quick tier runs these with 8 rotating kind assignments instead of all 8^k
// and leaves them out of the secondary spaces; the thorough tier runs them with the 64 stride vectors
// (placement does not depend on the kind; the full kind product is run on all other subsets).
func large(sub []int) bool {
	zz, a200 := false, false
	for _, i := range sub {
		zz = zz || addrs[i] == "ZZ2"
		a200 = a200 || addrs[i] == "A200"
	}
	return zz && a200
}

// kindAssignments lists kind vectors of length k: "full" = all 8^k; "stride" = (base + i*stride) mod 8 for
// every base and stride (64 vectors; every pair of kinds occurs on neighbouring cells); "rot" = stride 1 only.
func kindAssignments(k int, mode string) [][]xlsxw.Kind {
	kinds := xlsxw.Kinds
	n := len(kinds)
	var out [][]xlsxw.Kind
	seen := map[string]bool{}
	add := func(v []xlsxw.Kind) {
		key := fmt.Sprint(v)
		if !seen[key] {
			seen[key] = true
			out = append(out, v)
		}
	}
	switch mode {
	case "full":
		total := 1
		for i := 0; i < k; i++ {
			total *= n
		}
		for tv := 0; tv < total; tv++ {
			v := make([]xlsxw.Kind, k)
			x := tv
			for i := range v {
				v[i] = kinds[x%n]
				x /= n
			}
			add(v)
		}
	case "stride", "rot":
		strides := []int{1}
		if mode == "stride" {
			strides = []int{1, 0, 2, 3, 4, 5, 6, 7}
		}
		for _, st := range strides {
			for base := 0; base < n; base++ {
				v := make([]xlsxw.Kind, k)
				for i := range v {
					v[i] = kinds[(base+i*st)%n]
				}
				add(v)
			}
		}
	}
	return out
}

func cellsSpace(e *harness.Env, tmp string) {
	type plan struct {
		mode   string
		orders []string
	}
	for _, sub := range subsets(len(addrs), 1, 3) {
		k := len(sub)
		var plans []plan
		switch {
		case e.Thorough() && !large(sub):
			plans = []plan{{"full", allOrders}}
		case e.Thorough():
			plans = []plan{{"stride", []string{"in", "rev"}}}
		case large(sub):
			plans = []plan{{"rot", []string{"in", "rev"}}}
		case k == 3:
			plans = []plan{{"stride", []string{"in", "rev"}}}
		default:
			plans = []plan{{"full", []string{"in", "rev"}}}
		}
		for _, pl := range plans {
			for _, kv := range kindAssignments(k, pl.mode) {
				cells := make([]lcell, k)
				for i := range cells {
					cells[i] = mk(0, addrs[sub[i]], kv[i])
				}
				seen := map[string]bool{}
				for _, ord := range pl.orders {
					oc := ordered(cells, ord)
					key := writeKey(oc)
					if seen[key] {
						continue
					}
					seen[key] = true
					sheets := []lsheet{{name: "S1", cells: oc}}
					trivial := k == 1 && sub[0] == 0
					runCase(e, tmp, caseSpec{desc: baseDesc("cells", sheets, ord, wbopts{}), sheets: sheets,
						nontrivial: !trivial, outcome: fmt.Sprintf("cells%d", k)})
				}
			}
		}
	}
}

// bases: the rotating kind assignments used by the secondary spaces (all 8 in the thorough tier).
func bases(e *harness.Env, quick []int) []int {
	if e.Thorough() {
		return []int{0, 1, 2, 3, 4, 5, 6, 7}
	}
	return quick
}

// ---- (merge) -------------------------------------------------------------------------------------------

func rotKinds(base, i int) xlsxw.Kind { return xlsxw.Kinds[(base+i)%len(xlsxw.Kinds)] }

func mergeSpace(e *harness.Env, tmp string) {
	type mr struct {
		refs []string // the merged ranges (non-overlapping)
		last []string // the last covered cell of each range (none of them is in the address alphabet)
	}
	for _, m := range []mr{{[]string{"A1:B2"}, []string{"B2"}}, {[]string{"B1:C1"}, []string{"C1"}}, {[]string{"A2:A3"}, []string{"A3"}},
		{[]string{"B1:C1", "A2:A3"}, []string{"C1", "A3"}}} {
		for _, sub := range subsets(len(addrs), 0, 3) {
			if large(sub) && !e.Thorough() {
				continue
			}
			for _, extra := range []bool{false, true} {
				for _, base := range bases(e, []int{0, 2, 4, 6}) {
					if base > 0 && len(sub) == 0 && !extra {
						continue
					}
					var cells []lcell
					for i, ai := range sub {
						cells = append(cells, mk(0, addrs[ai], rotKinds(base, i)))
					}
					if extra {
						for j, l := range m.last {
							cells = append(cells, mk(0, l, rotKinds(base, 3+j)))
						}
					}
					for _, ord := range []string{"in", "rev"} {
						if ord == "rev" && len(cells) < 2 {
							continue
						}
						sheets := []lsheet{{name: "S1", cells: ordered(cells, ord), merges: m.refs}}
						_, stray, _ := features(sheets)
						out := fmt.Sprintf("merge%d", len(m.refs))
						if stray {
							out += "-stray"
						}
						runCase(e, tmp, caseSpec{desc: baseDesc("merge", sheets, ord, wbopts{}), sheets: sheets, nontrivial: true, outcome: out})
					}
				}
			}
		}
	}
}

// ---- (ws) a value containing a line break / tab -----------------------------------------------------

func wsSpace(e *harness.Env, tmp string) {
	small := []string{"A1", "B1", "A2", "C3", "AA1"}
	strKinds := []xlsxw.Kind{xlsxw.Shared, xlsxw.SharedRich, xlsxw.Inline, xlsxw.InlineRich, xlsxw.FormulaStr}
	for _, sub := range subsets(len(small), 1, 3) {
		for d := range sub {
			for _, ws := range []string{"nl", "tab"} {
				for _, sk := range strKinds {
					var cells []lcell
					for i, ai := range sub {
						if i == d {
							cells = append(cells, withWS(mk(0, small[ai], sk), ws))
						} else {
							cells = append(cells, mk(0, small[ai], xlsxw.Number))
						}
					}
					for _, ord := range []string{"in", "rev"} {
						if ord == "rev" && len(cells) < 2 {
							continue
						}
						sheets := []lsheet{{name: "S1", cells: ordered(cells, ord)}}
						runCase(e, tmp, caseSpec{desc: baseDesc("ws", sheets, ord, wbopts{}), sheets: sheets, nontrivial: true, outcome: "ws-" + ws})
					}
				}
			}
		}
	}
}

// ---- (sheets) two sheets, package layouts ---------------------------------------------------------------

func sheetsSpace(e *harness.Env, tmp string) {
	small := []string{"A1", "B1", "A2", "C3", "AB7"}
	subs := subsets(len(small), 0, 2)
	layouts := []struct {
		name string
		o    wbopts
	}{{"std", wbopts{}}, {"swapped-parts", wbopts{swapParts: true}}, {"abs-targets", wbopts{abs: true}}, {"relids", wbopts{relIDs: true, swapParts: true}}}
	for _, s1 := range subs {
		for _, s2 := range subs {
			for _, base := range bases(e, []int{0, 5}) {
				if base > 0 && len(s1)+len(s2) == 0 {
					continue
				}
				var c1, c2 []lcell
				for i, ai := range s1 {
					c1 = append(c1, mk(0, small[ai], rotKinds(base, i)))
				}
				for i, ai := range s2 {
					c2 = append(c2, mk(1, small[ai], rotKinds(base, i+len(s1))))
				}
				for _, l := range layouts {
					sheets := []lsheet{{name: "S1", cells: c1}, {name: "S2", cells: c2}}
					runCase(e, tmp, caseSpec{desc: baseDesc("sheets", sheets, "in", l.o, "layout", l.name), sheets: sheets, opts: l.o, nontrivial: true, outcome: "sheets2-" + l.name})
				}
			}
		}
	}
}

// ---- (xsheet) per-sheet state must not leak between sheets ---------------------------------------------
//
// Every sheet of a workbook is decoded on its own: nothing of one sheet (merged regions, dimension,
// rows, cells, string indices) may show in another. Each sheet independently takes a merge layout
// (none or one of the four) and a cell subset over addresses that lie inside the *other* sheets' possible
// regions (top-left and covered positions of A1:B2, B1:C1, A2:A3) plus one outside (C3), including the
// empty sheet, so a later sheet can be smaller than an earlier one in every respect (no <mergeCells>,
// no <dimension>, fewer rows, fewer cells, fewer string-table uses). Each sheet is judged against its own map.
func xsheetSpace(e *harness.Env, tmp string) {
	type cfg struct {
		merges []string
		cells  []string
	}
	layouts := [][]string{nil, {"A1:B2"}, {"B1:C1"}, {"A2:A3"}, {"B1:C1", "A2:A3"}}
	alphabet := []string{"A1", "B1", "A2", "B2", "A3"}
	if e.Thorough() {
		alphabet = []string{"A1", "B1", "A2", "B2", "A3", "C1", "C3"}
	} else {
		layouts = [][]string{nil, {"A1:B2"}, {"B1:C1", "A2:A3"}} // quick: none, one region, two regions
	}
	var cfgs []cfg
	for _, m := range layouts {
		for _, sub := range subsets(len(alphabet), 0, 2) {
			c := cfg{merges: m}
			for _, i := range sub {
				c.cells = append(c.cells, alphabet[i])
			}
			cfgs = append(cfgs, c)
		}
	}
	mkSheets := func(base int, cs []cfg, noDim []bool) []lsheet {
		var sheets []lsheet
		n := 0
		for si, c := range cs {
			var cells []lcell
			for _, a := range c.cells {
				cells = append(cells, mk(si, a, rotKinds(base, n)))
				n++
			}
			sheets = append(sheets, lsheet{name: fmt.Sprintf("S%d", si+1), cells: cells, merges: c.merges, noDim: noDim[si]})
		}
		return sheets
	}
	emit := func(base int, cs []cfg, noDim []bool, dims string) {
		sheets := mkSheets(base, cs, noDim)
		out := "xsheet" + fmt.Sprint(len(cs))
		for _, c := range cs {
			if len(c.merges) > 0 {
				out += "-m"
			} else {
				out += "-p"
			}
		}
		runCase(e, tmp, caseSpec{desc: baseDesc("xsheet", sheets, "in", wbopts{}, "dims", dims, "base", fmt.Sprint(base)), sheets: sheets, nontrivial: true, outcome: out})
	}
	for _, base := range bases2(e) {
		for _, c1 := range cfgs {
			for _, c2 := range cfgs {
				if len(c1.cells)+len(c2.cells) == 0 && base != bases2(e)[0] {
					continue
				}
				emit(base, []cfg{c1, c2}, []bool{false, false}, "both")
				// <dimension> present in only one of the sheets (thorough: everywhere; quick: small sheets)
				if e.Thorough() || (len(c1.cells) <= 1 && len(c2.cells) <= 1) {
					emit(base, []cfg{c1, c2}, []bool{false, true}, "s1-only")
					emit(base, []cfg{c1, c2}, []bool{true, false}, "s2-only")
				}
			}
		}
	}
	// three sheets: what sheet 1 declares must not reach sheet 3 either (and sheet 2 may be empty)
	small := []cfg{{nil, nil}, {nil, []string{"B1", "A2"}}, {[]string{"A1:B2"}, []string{"A1"}}, {[]string{"B1:C1", "A2:A3"}, []string{"B1", "A3"}}, {[]string{"A2:A3"}, nil}, {nil, []string{"B2", "A3"}}}
	for _, c1 := range small {
		for _, c2 := range small {
			for _, c3 := range small {
				emit(0, []cfg{c1, c2, c3}, []bool{false, false, false}, "both")
			}
		}
	}
}

func bases2(e *harness.Env) []int {
	if e.Thorough() {
		return []int{0, 3, 6}
	}
	return []int{0}
}

// ---- (sst) string-table layouts -----------------------------------------------------------------------------

func sstSpace(e *harness.Env, tmp string) {
	variants := []struct {
		name string
		o    wbopts
	}{{"reversed", wbopts{reverseSST: true}}, {"padded", wbopts{padSST: 2}}, {"reversed+padded", wbopts{reverseSST: true, padSST: 3}}}
	for _, sub := range subsets(len(addrs), 1, 3) {
		if large(sub) && !e.Thorough() {
			continue
		}
		k := len(sub)
		for tv := 0; tv < 1<<k; tv++ {
			if !e.Thorough() && k == 3 && tv != 0 && tv != 7 && tv != 2 && tv != 5 {
				continue // quick: all-plain, all-rich and the two alternating patterns
			}
			cells := make([]lcell, k)
			for i := range cells {
				kd := xlsxw.Shared
				if tv>>i&1 == 1 {
					kd = xlsxw.SharedRich
				}
				cells[i] = mk(0, addrs[sub[i]], kd)
			}
			for _, v := range variants {
				for _, ord := range []string{"in", "rev"} {
					if ord == "rev" && k < 2 {
						continue
					}
					sheets := []lsheet{{name: "S1", cells: ordered(cells, ord)}}
					runCase(e, tmp, caseSpec{desc: baseDesc("sst", sheets, ord, v.o, "sst", v.name), sheets: sheets, opts: v.o, nontrivial: true, outcome: "sst-" + v.name})
				}
			}
		}
	}
	// two sheets sharing one table: the second sheet's indices continue after the first's
	for _, s1 := range subsets(4, 1, 2) {
		for _, s2 := range subsets(4, 1, 2) {
			for _, v := range variants {
				var c1, c2 []lcell
				for i, ai := range s1 {
					c1 = append(c1, mk(0, addrs[ai], []xlsxw.Kind{xlsxw.Shared, xlsxw.SharedRich}[i%2]))
				}
				for i, ai := range s2 {
					c2 = append(c2, mk(1, addrs[ai], []xlsxw.Kind{xlsxw.SharedRich, xlsxw.Shared}[i%2]))
				}
				sheets := []lsheet{{name: "S1", cells: c1}, {name: "S2", cells: c2}}
				runCase(e, tmp, caseSpec{desc: baseDesc("sst2", sheets, "in", v.o, "sst", v.name), sheets: sheets, opts: v.o, nontrivial: true, outcome: "sst2-" + v.name})
			}
		}
	}
}

// ---- (variants) spellings of the same logical cell / sheet ------------------------------------------

func variantSpace(e *harness.Env, tmp string) {
	blanks := []string{"D1", "A4", "AC9", "B250"}
	for _, sub := range subsets(len(addrs), 1, 2) {
		if large(sub) && !e.Thorough() {
			continue
		}
		for _, base := range bases(e, []int{0, 2, 4, 6}) {
			var cells []lcell
			for i, ai := range sub {
				cells = append(cells, mk(0, addrs[ai], rotKinds(base, i)))
			}
			// formula-cached values and explicit t="n"
			fc := append([]lcell{}, cells...)
			changed := false
			for i := range fc {
				switch fc[i].kind {
				case xlsxw.Number:
					fc[i].formula, fc[i].explicitT, changed = "1+1", i%2 == 0, true
				case xlsxw.Bool:
					fc[i].formula, changed = "1=1", true
				case xlsxw.Error:
					fc[i].formula, changed = "1/0", true
				case xlsxw.FormulaStr:
					fc[i].formula, changed = `"a"&"b"`, true
				}
			}
			if changed {
				sheets := []lsheet{{name: "S1", cells: fc}}
				runCase(e, tmp, caseSpec{desc: baseDesc("variant", sheets, "in", wbopts{}, "variant", "formula-cached"), sheets: sheets, nontrivial: true, outcome: "formula-cached"})
			}
			for _, v := range []struct {
				name string
				o    wbopts
			}{{"no-dimension", wbopts{noDim: true}}, {"no-styles", wbopts{noStyles: true}}, {"deflated", wbopts{deflate: true}}} {
				sheets := []lsheet{{name: "S1", cells: cells}}
				runCase(e, tmp, caseSpec{desc: baseDesc("variant", sheets, "in", v.o, "variant", v.name), sheets: sheets, opts: v.o, nontrivial: true, outcome: v.name})
			}
			// a styled cell without a value before / after / below the content
			for _, b := range blanks {
				bc := append(append([]lcell{}, cells...), mk(0, b, xlsxw.Blank))
				for _, ord := range []string{"in", "rev"} {
					sheets := []lsheet{{name: "S1", cells: ordered(bc, ord)}}
					runCase(e, tmp, caseSpec{desc: baseDesc("variant", sheets, ord, wbopts{}, "variant", "blank-cell"), sheets: sheets, nontrivial: true, outcome: "blank-cell"})
				}
			}
		}
	}
}

// selfTestWriter validates the writer structurally on one workbook per package layout: every member is
// well-formed XML, every content-type override and every relationship target names an existing member,
// every <c> carries the reference it was given, inside the <row> with its row number.
func selfTestWriter() {
	cells := []lcell{mk(0, "D5", xlsxw.Blank)}
	for i, k := range xlsxw.Kinds {
		cells = append(cells, withWS(mk(0, addrs[i], k), []string{"", "nl", "tab"}[i%3]))
	}
	sheets := []lsheet{{name: "S1", cells: ordered(cells, "rev"), merges: []string{"A2:A3"}}, {name: "S2", cells: []lcell{mk(1, "C3", xlsxw.SharedRich)}}}
	for _, o := range []wbopts{{}, {swapParts: true, relIDs: true}, {abs: true, reverseSST: true, padSST: 2}, {noStyles: true, noDim: true, deflate: true}} {
		members := build(sheets, o).Members()
		names := map[string][]byte{}
		for _, m := range members {
			names[m.Name] = m.Data
			d := xml.NewDecoder(bytes.NewReader(m.Data))
			for {
				if _, err := d.Token(); err == io.EOF {
					break
				} else if err != nil {
					panic(fmt.Sprintf("writer self-test: %s is not well-formed: %v", m.Name, err))
				}
			}
		}
		for _, need := range []string{"[Content_Types].xml", "_rels/.rels", "xl/workbook.xml", "xl/_rels/workbook.xml.rels", "xl/sharedStrings.xml"} {
			if names[need] == nil {
				panic("writer self-test: missing member " + need)
			}
		}
		var ct struct {
			Override []struct {
				PartName string `xml:"PartName,attr"`
			} `xml:"Override"`
		}
		xml.Unmarshal(names["[Content_Types].xml"], &ct)
		for _, ov := range ct.Override {
			if names[strings.TrimPrefix(ov.PartName, "/")] == nil {
				panic("writer self-test: content-type override for missing part " + ov.PartName)
			}
		}
		var rels struct {
			R []struct {
				ID     string `xml:"Id,attr"`
				Target string `xml:"Target,attr"`
			} `xml:"Relationship"`
		}
		xml.Unmarshal(names["xl/_rels/workbook.xml.rels"], &rels)
		targets := map[string]string{}
		for _, r := range rels.R {
			t := "xl/" + r.Target
			if strings.HasPrefix(r.Target, "/") {
				t = r.Target[1:]
			}
			if names[t] == nil {
				panic("writer self-test: relationship target missing: " + r.Target)
			}
			targets[r.ID] = t
		}
		var wbx struct {
			Sheets []struct {
				Name string `xml:"name,attr"`
				RID  string `xml:"http://schemas.openxmlformats.org/officeDocument/2006/relationships id,attr"`
			} `xml:"sheets>sheet"`
		}
		xml.Unmarshal(names["xl/workbook.xml"], &wbx)
		if len(wbx.Sheets) != 2 || wbx.Sheets[0].Name != "S1" || wbx.Sheets[1].Name != "S2" {
			panic("writer self-test: sheets not in declared order")
		}
		for i, sh := range wbx.Sheets {
			var ws struct {
				Rows []struct {
					R     int `xml:"r,attr"`
					Cells []struct {
						R string `xml:"r,attr"`
					} `xml:"c"`
				} `xml:"sheetData>row"`
			}
			xml.Unmarshal(names[targets[sh.RID]], &ws)
			var got []string
			for _, rw := range ws.Rows {
				for _, c := range rw.Cells {
					if _, r, err := xlsxw.ParseRef(c.R); err != nil || r+1 != rw.R {
						panic("writer self-test: cell " + c.R + " in wrong row element")
					}
					got = append(got, c.R)
				}
			}
			var want []string
			for _, c := range sheets[i].cells {
				want = append(want, c.addr)
			}
			sort.Strings(got)
			sort.Strings(want)
			if strings.Join(got, ",") != strings.Join(want, ",") {
				panic(fmt.Sprintf("writer self-test: sheet %s holds cells %v, want %v", sh.Name, got, want))
			}
		}
	}
}
