package main

import (
	"fmt"
	"os"
	"path/filepath"
	"testing"
	"time"

	"verif/internal/gen/xlsxw"
)

func TestProf(t *testing.T) {
	tmp := "/dev/shm/c17prof"
	os.MkdirAll(tmp, 0o755)
	defer os.RemoveAll(tmp)
	for _, set := range [][]string{{"A1"}, {"A1", "B1", "C3"}, {"AB7"}, {"ZZ2"}, {"A200"}, {"ZZ2", "A200"}} {
		var cells []lcell
		for _, a := range set {
			cells = append(cells, mk(0, a, xlsxw.Shared))
		}
		sheets := []lsheet{{name: "S1", cells: cells}}
		t0 := time.Now()
		var data []byte
		for i := 0; i < 50; i++ {
			data = build(sheets, wbopts{}).Bytes()
		}
		gen := time.Since(t0) / 50
		path := filepath.Join(tmp, "c.xlsx")
		t0 = time.Now()
		for i := 0; i < 50; i++ {
			os.WriteFile(path, data, 0o644)
		}
		wr := time.Since(t0) / 50
		exps := []*sheetExp{expect(sheets[0])}
		line := fmt.Sprintf("%v gen=%v write=%v", set, gen, wr)
		for _, v := range views {
			t0 = time.Now()
			n := 20
			for i := 0; i < n; i++ {
				cl, _, _, _ := observe(v, path, sheets, exps)
				if len(cl) > 0 {
					t.Fatal(cl)
				}
			}
			line += fmt.Sprintf(" %s=%v", v, time.Since(t0)/time.Duration(n))
		}
		fmt.Println(line)
	}
}
