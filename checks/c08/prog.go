package main

// Program representation, the operator alphabet and the two ways a program is handed to
// tabula: content-stream bytes (ExtractFromBytes) and pre-built operations (Extract).

import (
	"fmt"
	"strconv"
	"strings"

	"github.com/tsawler/tabula/contentstream"
	"github.com/tsawler/tabula/core"
)

// num is a number exactly as written in the stream; the model uses the value of that literal.
type num struct {
	lit string
	v   float64
}

func N(lit string) num {
	v, err := strconv.ParseFloat(lit, 64)
	if err != nil {
		panic(err)
	}
	return num{lit, v}
}

func (n num) obj() core.Object {
	if strings.ContainsAny(n.lit, ".") {
		return core.Real(n.v)
	}
	return core.Int(int64(n.v))
}

type op struct {
	k    string // operator
	code string // short name used in descriptors, e.g. "cm:S"
	m    mat    // cm / Tm
	ml   [6]num
	n    []num  // other numeric operands
	name string // font or form name (without slash)
	s    string // shown string
}

type form struct {
	name       string
	hasMatrix  bool
	matrix     mat
	ml         [6]num
	ops        []op
	indirect   bool // the XObject resource entry is an indirect reference
	matrixIndr bool // the /Matrix value is an indirect reference
	// raw, when rawSet, is the stream content instead of the serialised ops (operator-less bodies:
	// zero bytes, white space only, comment only); ops is empty then
	raw    []byte
	rawSet bool
}

func (f *form) content() []byte {
	if f.rawSet {
		return f.raw
	}
	return streamBytes(f.ops)
}

type program struct {
	ops   []op
	forms map[string]*form
	fseq  []*form // deterministic order

	shareFonts bool
	textQ      bool // q/Q may occur inside text objects (outside ISO 32000-1 Figure 9; see ref.go saved)
}

// ---- alphabet ---------------------------------------------------------------------------

type namedMat struct {
	name string
	lit  [6]string
}

const cos30 = "0.8660254037844386" // shortest decimal of float64(sqrt(3)/2)

// CTM-side matrices: translate, uniform scale, non-uniform scale, rot 90 (x2), rot 30, shear, reflection (x1.5)
var cmMats = []namedMat{
	{"T", [6]string{"1", "0", "0", "1", "30", "40"}},
	{"U", [6]string{"2", "0", "0", "2", "0", "0"}},
	{"S", [6]string{"2", "0", "0", "3", "5", "-7"}},
	{"R90", [6]string{"0", "2", "-2", "0", "100", "0"}},
	{"R30", [6]string{cos30, "0.5", "-0.5", cos30, "11", "13"}},
	{"H", [6]string{"1", "0", "0.5", "1", "0", "0"}},
	{"F", [6]string{"1.5", "0", "0", "-1.5", "0", "600"}},
}

// text matrices
var tmMats = []namedMat{
	{"T", [6]string{"1", "0", "0", "1", "50", "60"}},
	{"U", [6]string{"12", "0", "0", "12", "72", "700"}},
	{"S", [6]string{"2", "0", "0", "3", "10", "20"}},
	{"R90", [6]string{"0", "1", "-1", "0", "300", "100"}},
	{"R30", [6]string{"1.7320508075688772", "1", "-1", "1.7320508075688772", "20", "30"}},
	{"H", [6]string{"1", "0.25", "0", "1", "4", "8"}},
	{"F", [6]string{"1", "0", "0", "-1", "0", "500"}},
}

func matOp(k string, nm namedMat) op {
	o := op{k: k, code: k + ":" + nm.name}
	for i, l := range nm.lit {
		o.ml[i] = N(l)
		o.m[i] = o.ml[i].v
	}
	return o
}

func numOp(k, tag string, lits ...string) op {
	o := op{k: k, code: k}
	if tag != "" {
		o.code = k + ":" + tag
	}
	for _, l := range lits {
		o.n = append(o.n, N(l))
	}
	return o
}

func plain(k string) op { return op{k: k, code: k} }

func tfOp(font, size string) op {
	return op{k: "Tf", code: "Tf:" + font, name: font, n: []num{N(size)}}
}

func doOp(name string) op { return op{k: "Do", code: "Do:" + name, name: name} }

var (
	opQ, opq     = plain("Q"), plain("q")
	opBT, opET   = plain("BT"), plain("ET")
	opTstar      = plain("T*")
	opTj         = plain("Tj")
	opQuote      = plain("'")
	opDQuote     = numOp("\"", "", "2", "0.5")
	opsTd        = []op{numOp("Td", "a", "7", "-3"), numOp("Td", "b", "0", "-1.2"), numOp("Td", "c", "-5", "11")}
	opsTD        = []op{numOp("TD", "a", "0", "-14"), numOp("TD", "b", "3", "5")}
	opsTL        = []op{numOp("TL", "a", "12"), numOp("TL", "b", "1.5")}
	opsTf        = []op{tfOp("F1", "10"), tfOp("F2", "1")}
	opTc         = numOp("Tc", "", "0.5")
	opTw         = numOp("Tw", "", "2")
	opTz         = numOp("Tz", "", "150")
	opsCm, opsTm []op
)

// setupAlphabet is called once from run (not an init func: main.go's tables depend on it)
func setupAlphabet() {
	if len(opsCm) > 0 {
		return
	}
	opDQuote.code = "DQ"
	opQuote.code = "SQ"
	for _, m := range cmMats {
		opsCm = append(opsCm, matOp("cm", m))
	}
	for _, m := range tmMats {
		opsTm = append(opsTm, matOp("Tm", m))
	}
}

func isShow(k string) bool { return k == "Tj" || k == "'" || k == "\"" }

// label assigns a distinct string to every show of the program (page content first, then the
// forms) so that tabula's position-based de-duplication can never merge two of them.
func (p *program) label() {
	n := 0
	lab := func(ops []op) {
		for i := range ops {
			if isShow(ops[i].k) {
				ops[i].s = showName(n)
				n++
			}
		}
	}
	lab(p.ops)
	for _, f := range p.fseq {
		lab(f.ops)
	}
}

func showName(n int) string {
	const letters = "ABCDEFGHIJKLMNOPQRSTUVWXYZ"
	if n < 26 {
		return letters[n : n+1]
	}
	return letters[n%26:n%26+1] + strconv.Itoa(n/26)
}

func (p *program) addForm(f *form) {
	if p.forms == nil {
		p.forms = map[string]*form{}
	}
	p.forms[f.name] = f
	p.fseq = append(p.fseq, f)
}

func codes(ops []op) string {
	var b strings.Builder
	for i := range ops {
		if i > 0 {
			b.WriteByte(',')
		}
		b.WriteString(ops[i].code)
	}
	if b.Len() == 0 {
		return "-"
	}
	return b.String()
}

// ---- serialisation -----------------------------------------------------------------------

func writeOps(b *strings.Builder, ops []op) {
	for i := range ops {
		o := &ops[i]
		switch o.k {
		case "cm", "Tm":
			for _, n := range o.ml {
				b.WriteString(n.lit)
				b.WriteByte(' ')
			}
		case "Tf", "Do":
			b.WriteByte('/')
			b.WriteString(o.name)
			b.WriteByte(' ')
			for _, n := range o.n {
				b.WriteString(n.lit)
				b.WriteByte(' ')
			}
		case "line":
			fmt.Fprintf(b, "%s %s m %s %s l S\n", o.n[0].lit, o.n[1].lit, o.n[2].lit, o.n[3].lit)
			continue
		default:
			for _, n := range o.n {
				b.WriteString(n.lit)
				b.WriteByte(' ')
			}
		}
		if isShow(o.k) {
			b.WriteByte('(')
			b.WriteString(o.s)
			b.WriteString(") ")
		}
		b.WriteString(o.k)
		b.WriteByte('\n')
	}
}

func streamBytes(ops []op) []byte {
	var b strings.Builder
	writeOps(&b, ops)
	return []byte(b.String())
}

// operations builds what contentstream.Parser produces for the same program (Name without the
// slash, Int for literals without a decimal point, Real otherwise, String for ( ) strings).
func operations(ops []op) []contentstream.Operation {
	out := make([]contentstream.Operation, 0, len(ops))
	for i := range ops {
		o := &ops[i]
		var operands []core.Object
		switch o.k {
		case "cm", "Tm":
			for _, n := range o.ml {
				operands = append(operands, n.obj())
			}
		case "Tf", "Do":
			operands = append(operands, core.Name(o.name))
			for _, n := range o.n {
				operands = append(operands, n.obj())
			}
		case "line":
			out = append(out,
				contentstream.Operation{Operator: "m", Operands: []core.Object{o.n[0].obj(), o.n[1].obj()}},
				contentstream.Operation{Operator: "l", Operands: []core.Object{o.n[2].obj(), o.n[3].obj()}},
				contentstream.Operation{Operator: "S"})
			continue
		default:
			for _, n := range o.n {
				operands = append(operands, n.obj())
			}
		}
		if isShow(o.k) {
			operands = append(operands, core.String(o.s))
		}
		out = append(out, contentstream.Operation{Operator: o.k, Operands: operands})
	}
	return out
}

func hasQuote(ops []op) bool {
	for i := range ops {
		if ops[i].k == "'" || ops[i].k == "\"" {
			return true
		}
	}
	return false
}

// resources builds the page /Resources dictionary (only /XObject matters here) and the resolver
// for the indirect references used in it.
func (p *program) resources() (core.Dict, func(core.IndirectRef) (core.Object, error)) {
	objs := map[int]core.Object{}
	next := 10
	xo := core.Dict{}
	for _, f := range p.fseq {
		d := core.Dict{"Type": core.Name("XObject"), "Subtype": core.Name("Form"),
			"BBox": core.Array{core.Int(-10000), core.Int(-10000), core.Int(10000), core.Int(10000)}}
		if f.hasMatrix {
			arr := core.Array{}
			for _, n := range f.ml {
				arr = append(arr, n.obj())
			}
			if f.matrixIndr {
				objs[next] = arr
				d["Matrix"] = core.IndirectRef{Number: next}
				next++
			} else {
				d["Matrix"] = arr
			}
		}
		data := f.content()
		d["Length"] = core.Int(len(data))
		st := &core.Stream{Dict: d, Data: data}
		if f.indirect {
			objs[next] = st
			xo[f.name] = core.IndirectRef{Number: next}
			next++
		} else {
			xo[f.name] = st
		}
	}
	res := core.Dict{"XObject": xo}
	return res, func(r core.IndirectRef) (core.Object, error) {
		if o, ok := objs[r.Number]; ok {
			return o, nil
		}
		return nil, fmt.Errorf("object %d not found", r.Number)
	}
}

// features derived from the program text only (used as descriptor tokens for known findings)
func (p *program) hasRotatedTm() bool {
	chk := func(ops []op) bool {
		for i := range ops {
			if ops[i].k == "Tm" && ops[i].m[1] != 0 {
				if _, ok := similarity(ops[i].m); ok {
					return true
				}
			}
		}
		return false
	}
	if chk(p.ops) {
		return true
	}
	for _, f := range p.fseq {
		if chk(f.ops) {
			return true
		}
	}
	return false
}
