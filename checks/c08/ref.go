package main

// Independent reference: the text / graphics state machine of ISO 32000-1 §8.4 (graphics
// state, cm, q/Q), §8.10 (Form XObjects) and §9.4 (text objects, Td TD Tm T* ' ") with its
// own 3x3 arithmetic. Row-vector convention: p' = p x M; a matrix is [a b c d e f].
// Nothing here imports tabula.

import "math"

type mat [6]float64

var ident = mat{1, 0, 0, 1, 0, 0}

// mul returns a x b.
func mul(a, b mat) mat {
	return mat{
		a[0]*b[0] + a[1]*b[2],
		a[0]*b[1] + a[1]*b[3],
		a[2]*b[0] + a[3]*b[2],
		a[2]*b[1] + a[3]*b[3],
		a[4]*b[0] + a[5]*b[2] + b[4],
		a[4]*b[1] + a[5]*b[3] + b[5],
	}
}

func apply(x, y float64, m mat) (float64, float64) {
	return x*m[0] + y*m[2] + m[4], x*m[1] + y*m[3] + m[5]
}

func translate(tx, ty float64) mat { return mat{1, 0, 0, 1, tx, ty} }

// similarity reports whether the linear part of m is a uniform scale combined with a rotation
// and/or reflection, and returns that scale.
func similarity(m mat) (float64, bool) {
	n1 := m[0]*m[0] + m[1]*m[1]
	n2 := m[2]*m[2] + m[3]*m[3]
	dot := m[0]*m[2] + m[1]*m[3]
	big := math.Max(n1, n2)
	if big == 0 {
		return 0, false
	}
	if math.Abs(n1-n2) > 1e-9*big || math.Abs(dot) > 1e-9*big {
		return 0, false
	}
	return math.Sqrt(n1), true
}

func maxAbs(m mat) float64 {
	v := 0.0
	for _, x := range m {
		if math.Abs(x) > v {
			v = math.Abs(x)
		}
	}
	return v
}

// the part of the graphics state this property is about (ISO 32000-1 Table 52 + Table 104)
type gstate struct {
	ctm                 mat
	ctmA                mat // the same product formed from the absolute values of all factors (error-bound companion)
	tc, tw, tz, tl, tfs float64
	font                string
}

// variant selects a deliberately wrong model, used ONLY to name a failure class after the
// correct model has already rejected the observation (never to accept one).
type variant struct {
	postCm bool // cm / form matrix concatenated on the wrong side: CTM' = CTM x M
	postTd bool // Td family applied on the wrong side: Tlm' = Tlm x T
	keepTm bool // Q keeps the current Tm / Tlm instead of the ones present at the matching q
}

// saved is one entry of the q/Q stack.
//
// ISO 32000-1 allows q/Q only outside text objects (Figure 9), where Tm and Tlm are dead (BT resets
// them), so for every ISO-valid program it is unobservable whether q saves them. tabula also accepts
// q ... Q INSIDE a text object (its own suite does that) and its model is "q pushes the whole
// GraphicsState value, TextState with TextMatrix/TextLineMatrix included, Q pops it". ISO gives such
// programs no meaning (and lists Tm/Tlm as text-object parameters, not graphics-state parameters), so
// for them - descriptor token qintext=y - the reference states tabula's pinned model: a q ... Q pair
// balanced inside one text object restores Tm and Tlm together with the rest of the state.
type saved struct {
	gs        gstate
	tm, tlm   mat
	tmA, tlmA mat
	dirty     bool
	inText    bool // the q was executed inside a text object
}

// expect is what the model says about one text-showing operator.
type expect struct {
	text       string
	x, y       float64
	comparePos bool    // false when the origin depends on glyph advances of an earlier show
	tolx, toly float64 // tolerance: relTol x (sum of the magnitudes of all terms that add up to the coordinate) + floor
	size       float64
	cmpSize    bool // Tm and CTM are both similarity transforms
	depth      int  // q nesting depth at the show (forms count)
	inForm     bool
}

type machine struct {
	v       variant
	gs      gstate
	stack   []saved
	tm, tlm mat
	tmA     mat // error-bound companions of tm / tlm (products of absolute values)
	tlmA    mat
	inText  bool
	dirty   bool // Tm was advanced by a show since it was last set from Tlm / Tm operator
	forms   map[string]*form
	out     []expect
	fdepth  int
	invalid string // set when the program is not a valid one (generator bug)
	maxQ    int
	textQ   bool // the program may use q/Q inside text objects (balanced within the text object)
	qInText bool // it did
	// observations used for outcome classes
	restoredCTM, restoredText bool
}

func newMachine(v variant, forms map[string]*form) *machine {
	return &machine{v: v, gs: gstate{ctm: ident, ctmA: ident, tz: 100}, tm: ident, tlm: ident, tmA: ident, tlmA: ident, forms: forms}
}

// Tolerance. Every coordinate is a sum of products of the numbers written in the program. Next to each
// matrix the machine keeps the same product formed from absolute values; its translation entries bound the sum
// of the magnitudes of all terms, so relTol x that bound is a purely RELATIVE tolerance that is fair to huge
// (1e4-scaled) and tiny (1e-4-scaled) coordinates alike and still ~1e6 times the float64 rounding error of any
// evaluation order. tolFloor only serves coordinates whose terms are all exactly zero.
const (
	relTol   = 1e-9
	tolFloor = 1e-12
)

func absMat(x mat) mat {
	for i := range x {
		x[i] = math.Abs(x[i])
	}
	return x
}

func (m *machine) concat(x mat) {
	if m.v.postCm {
		m.gs.ctm = mul(m.gs.ctm, x)
		m.gs.ctmA = mul(m.gs.ctmA, absMat(x))
	} else {
		m.gs.ctm = mul(x, m.gs.ctm)
		m.gs.ctmA = mul(absMat(x), m.gs.ctmA)
	}
}

func (m *machine) td(tx, ty float64) {
	if m.v.postTd {
		m.tlm = mul(m.tlm, translate(tx, ty))
		m.tlmA = mul(m.tlmA, absMat(translate(tx, ty)))
	} else {
		m.tlm = mul(translate(tx, ty), m.tlm)
		m.tlmA = mul(absMat(translate(tx, ty)), m.tlmA)
	}
	m.tm, m.tmA = m.tlm, m.tlmA
	m.dirty = false
}

func (m *machine) show(text string) {
	trm := mul(m.tm, m.gs.ctm)
	e := expect{text: text, x: trm[4], y: trm[5], comparePos: !m.dirty, depth: len(m.stack), inForm: m.fdepth > 0}
	trmA := mul(m.tmA, m.gs.ctmA)
	e.tolx, e.toly = relTol*trmA[4]+tolFloor, relTol*trmA[5]+tolFloor
	s1, ok1 := similarity(m.tm)
	s2, ok2 := similarity(m.gs.ctm)
	if ok1 && ok2 {
		e.cmpSize = true
		e.size = math.Abs(m.gs.tfs) * s1 * s2
	}
	m.out = append(m.out, e)
	m.dirty = true
}

func (m *machine) needText(o *op) bool {
	if !m.inText {
		m.invalid = o.code + " outside a text object"
		return false
	}
	return true
}

func (m *machine) needPage(o *op) bool {
	if m.inText {
		m.invalid = o.code + " inside a text object"
		return false
	}
	return true
}

func (m *machine) run(ops []op) {
	for i := range ops {
		o := &ops[i]
		if m.invalid != "" {
			return
		}
		switch o.k {
		case "q":
			if m.textQ || m.needPage(o) {
				m.stack = append(m.stack, saved{m.gs, m.tm, m.tlm, m.tmA, m.tlmA, m.dirty, m.inText})
				if len(m.stack) > m.maxQ {
					m.maxQ = len(m.stack)
				}
				if m.inText {
					m.qInText = true
				}
			}
		case "Q":
			if m.textQ || m.needPage(o) {
				if len(m.stack) == 0 {
					m.invalid = "unbalanced Q"
					return
				}
				top := m.stack[len(m.stack)-1]
				if top.inText != m.inText {
					m.invalid = "Q does not match a q of the same text object / page level"
					return
				}
				old := m.gs
				m.gs = top.gs
				if !m.v.keepTm {
					m.tm, m.tlm, m.dirty = top.tm, top.tlm, top.dirty
					m.tmA, m.tlmA = top.tmA, top.tlmA
				}
				m.stack = m.stack[:len(m.stack)-1]
				if old.ctm != m.gs.ctm {
					m.restoredCTM = true
				}
				o2, n2 := old, m.gs
				o2.ctm, n2.ctm = ident, ident
				o2.ctmA, n2.ctmA = ident, ident
				if o2 != n2 {
					m.restoredText = true
				}
			}
		case "cm":
			if m.needPage(o) {
				m.concat(o.m)
			}
		case "Do":
			if m.needPage(o) {
				f := m.forms[o.name]
				if f == nil {
					m.invalid = "unknown form " + o.name
					return
				}
				// §8.10.1: save the graphics state, concatenate /Matrix with the CTM, paint, restore
				before := m.gs
				depth := len(m.stack)
				m.stack = append(m.stack, saved{m.gs, m.tm, m.tlm, m.tmA, m.tlmA, m.dirty, false})
				if len(m.stack) > m.maxQ {
					m.maxQ = len(m.stack)
				}
				if f.hasMatrix {
					m.concat(f.matrix)
				}
				m.fdepth++
				m.run(f.ops)
				m.fdepth--
				if m.inText || len(m.stack) != depth+1 {
					m.invalid = "form " + o.name + " content is not balanced"
					return
				}
				m.stack = m.stack[:depth]
				if before.ctm != m.gs.ctm {
					m.restoredCTM = true
				}
				m.gs = before
				// the form's text objects leave Tm/Tlm behind exactly as a text object of the page would;
				// they are dead until the next BT
			}
		case "BT":
			if m.needPage(o) {
				m.inText = true
				m.tm, m.tlm = ident, ident
				m.tmA, m.tlmA = ident, ident
				m.dirty = false
			}
		case "ET":
			if m.needText(o) {
				if len(m.stack) > 0 && m.stack[len(m.stack)-1].inText {
					m.invalid = "ET with an open q of this text object"
					return
				}
				m.inText = false
			}
		case "Tf":
			m.gs.font, m.gs.tfs = o.name, o.n[0].v
		case "TL":
			m.gs.tl = o.n[0].v
		case "Tc":
			m.gs.tc = o.n[0].v
		case "Tw":
			m.gs.tw = o.n[0].v
		case "Tz":
			m.gs.tz = o.n[0].v
		case "Tm":
			if m.needText(o) {
				m.tm, m.tlm = o.m, o.m
				m.tmA, m.tlmA = absMat(o.m), absMat(o.m)
				m.dirty = false
			}
		case "Td":
			if m.needText(o) {
				m.td(o.n[0].v, o.n[1].v)
			}
		case "TD":
			if m.needText(o) {
				m.gs.tl = -o.n[1].v
				m.td(o.n[0].v, o.n[1].v)
			}
		case "T*":
			if m.needText(o) {
				m.td(0, -m.gs.tl)
			}
		case "Tj":
			if m.needText(o) {
				m.show(o.s)
			}
		case "'":
			if m.needText(o) {
				m.td(0, -m.gs.tl)
				m.show(o.s)
			}
		case "\"":
			if m.needText(o) {
				m.gs.tw, m.gs.tc = o.n[0].v, o.n[1].v
				m.td(0, -m.gs.tl)
				m.show(o.s)
			}
		case "line":
			// graphics sub-space: a stroked segment; recorded as two expectations (start, end)
			if m.needPage(o) {
				for k := 0; k < 2; k++ {
					x, y := apply(o.n[2*k].v, o.n[2*k+1].v, m.gs.ctm)
					bx, by := apply(math.Abs(o.n[2*k].v), math.Abs(o.n[2*k+1].v), m.gs.ctmA)
					m.out = append(m.out, expect{x: x, y: y, comparePos: true, tolx: relTol*bx + tolFloor, toly: relTol*by + tolFloor, depth: len(m.stack)})
				}
			}
		default:
			m.invalid = "unknown operator " + o.k
		}
	}
}

// simulate runs a whole program (page level) under the given model variant.
func simulate(p *program, v variant) *machine {
	m := newMachine(v, p.forms)
	m.textQ = p.textQ
	m.run(p.ops)
	if m.invalid == "" && (m.inText || len(m.stack) != 0) {
		m.invalid = "program ends inside a text object or with unbalanced q"
	}
	return m
}

// at reports whether (x, y) is the expected origin within the tolerance.
func (e expect) at(x, y float64) bool {
	return math.Abs(x-e.x) <= e.tolx && math.Abs(y-e.y) <= e.toly
}
