// C08 — Fragment positions follow the PDF imaging model.
//
// Bounded-exhaustive enumeration of valid operator programs over
// {q,Q,cm,BT,ET,Tf,Tm,Td,TD,T*,TL,Tc,Tw,Tz,Tj,',",Do}; every program is run through the real
// text.Extractor (and the cm/q/Q part through graphicsstate.GraphicsExtractor) and the origin /
// font size of every fragment is compared with an independent ISO 32000-1 §8.4/§9.4 state machine
// (ref.go). Sub-spaces: seq (all valid programs up to a length), long (length-40 skeleton with
// q/Q depth 8 and a Form XObject, deviation bounded), form (Form XObject /Matrix product), gfx.
package main

import (
	"fmt"
	"math"
	"os"
	"strconv"
	"strings"

	"github.com/tsawler/tabula/font"
	"github.com/tsawler/tabula/graphicsstate"
	"github.com/tsawler/tabula/text"
	"verif/internal/harness"
)

func main() { harness.Main("C08", "exploration", run) }

func run(e *harness.Env) {
	e.Rule = "seq: EVERY valid operator program (ISO 32000-1 Figure 9 nesting: q/Q/cm/Do only outside text objects, balanced q/Q, no nested BT) of <= L positioning operators " +
		"(L=5 quick, 6 thorough) over an alphabet of 15 page-level and 24 text-level operator instances (7 cm and 7 Tm matrices: translate, uniform scale, non-uniform scale, rot 90, rot 30, shear, reflection; " +
		"3 Td, 2 TD, T*, 2 TL, 2 Tf, Tc, Tw, Tz, Tj, ', \", one Form XObject Do), closed by a show; " +
		"long: a length-40 skeleton with q/Q nesting depth 8 and a Form XObject (standard or operator-less body) invoked at depth 8, all programs within <= 2 (quick) / 3 (thorough) operator substitutions; " +
		"form: product of <=2 (quick) / <=3 (thorough) outer cm x /Matrix (8) x direct/indirect x 9 form bodies (text, nested form, cm/TL/Tf inside the form without q, operator-less: zero bytes / white space / comment, state-only, operator-less nested form) x 5 invocation contexts (bare, q Do Q, q cm Do Q, two q levels with text between the Qs, 12 invocations in a row) x follow-up page-level text; " +
		"gfx: every q/Q/cm program of <= 4 (quick) / 6 (thorough) operators with a stroked segment after each step through graphicsstate.NewGraphicsExtractor. " +
		"tq: BT [pre] q <1..2 (quick) / 1..3 (thorough) positioning, showing or text-state operators> Q <each kind of next operator> Tj ET, with and without a page cm " +
		"(q/Q inside a text object is outside ISO 32000-1 Figure 9; reference = tabula's pinned model that q saves Tm/Tlm too; the seq grammar also allows such pairs, token qintext=y); " +
		"noop: per text-state parameter (Tf size, TL, Tc, Tw, Tz, Ts, Tr) a block 'q <change> Q' at page level and inside the text object must leave all later fragments (origin, size, width) as without the block; " +
		"mag: magnitude classes - scales 1e-4, 5e-4, 1e-3, 1e3, 1e4 (uniform, non-uniform, rotated 90, rotated 30, each with translation), two nearly singular invertible shears (det 1e-4, 1e-7) and two ordinary matrices (24 in all): " +
		"every chain of <=2 (quick) / <=3 (thorough) of them as cm around three text objects and through GraphicsExtractor, each as Tm followed by Tj/Td/T*/TD/' under 4 CTMs, each as Form /Matrix under none/each outer cm; " +
		"One evaluation = one program; distinct = distinct program descriptors; non-trivial = the program is sensitive to the multiplication order, or makes a q/Q/Do restore observable, or has >= 2 compared shows. " +
		"seq cases are sharded and (when failing) recorded per group = common prefix of 3 operators: one failure record per group x signature x feature class, remaining failing programs are counted in programs_failing"
	e.Assumptions = []string{
		"q/Q inside a text object are not allowed by ISO 32000-1 (Figure 9) and Tm/Tlm are not graphics-state parameters there; for such programs (descriptor token qintext=y) the reference states tabula's own pinned model - q pushes the whole GraphicsState including TextMatrix/TextLineMatrix and Q pops it - not a requirement of the standard",
		"the reference state machine in checks/c08/ref.go implements ISO 32000-1 8.3.4, 8.4.2-8.4.4, 8.10.1, 9.3, 9.4.2 correctly (own 6-number matrix product, row-vector convention)",
		"numbers are written as decimal literals (no exponents); reference and tabula both read them with strconv. Tolerance: purely relative, 1e-9 x (sum of the magnitudes of all terms that add up to the coordinate, tracked by a companion product of absolute values) + 1e-12 floor for coordinates whose terms are all zero; font size 1e-9 relative. A matrix that is not concatenated changes a coordinate by far more than that at every magnitude class used (1e-4 .. 1e4)",
		"programs containing ' or \" are handed to Extract() as pre-built operations (the content-stream tokenizer is property C06's subject), all others as bytes to ExtractFromBytes()",
	}
	setup()
	// C08_SPACES (development only, never set by the registered commands) restricts the run to some sub-spaces
	only := os.Getenv("C08_SPACES")
	for _, sp := range []struct {
		name string
		f    func(*harness.Env)
	}{{"seq", seqSpace}, {"tq", textQSpace}, {"noop", noopSpace}, {"mag", magSpace}, {"long", longSpace}, {"form", formSpace}, {"gfx", gfxSpace}} {
		if only == "" || strings.Contains(","+only+",", ","+sp.name+",") {
			sp.f(e)
		}
	}
}

// ---- running one program against tabula and judging it ---------------------------------------

type verdict struct {
	sig        string
	explain    func() (string, map[string][]byte) // built only for failures that are recorded
	outcome    string
	nontrivial bool
	compared   int
	sized      int
	maxQ       int // deepest graphics-state stack reached (q and the implicit save of Do)
}

// sharedFonts: the seq and form spaces register the two (standard, metrics-only) fonts once instead of
// letting every fresh extractor auto-register them at the first Tf (building the width table is 90% of the
// cost of a case and has no bearing on positions). The long space uses the plain auto-registering path.
var sharedFonts map[string]*font.Font

func runText(p *program) ([]text.TextFragment, error) {
	ex := text.NewExtractor()
	if p.shareFonts {
		if sharedFonts == nil {
			sharedFonts = map[string]*font.Font{"/F1": font.NewFont("/F1", "Helvetica", "Type1"), "/F2": font.NewFont("/F2", "Helvetica", "Type1")}
		}
		ex.RegisterParsedFont("/F1", sharedFonts["/F1"])
		ex.RegisterParsedFont("/F2", sharedFonts["/F2"])
	}
	if len(p.fseq) > 0 {
		res, rs := p.resources()
		ex.SetResourceContext(res, rs)
	}
	if hasQuote(p.ops) {
		return ex.Extract(operations(p.ops))
	}
	return ex.ExtractFromBytes(streamBytes(p.ops))
}

func near(a, b, tol float64) bool {
	return math.Abs(a-b) <= tol && !math.IsNaN(a) && !math.IsNaN(b)
}

func (p *program) dump() map[string][]byte {
	files := map[string][]byte{"content.txt": streamBytes(p.ops)}
	for _, f := range p.fseq {
		hdr := "% form /" + f.name
		if f.hasMatrix {
			hdr += " /Matrix ["
			for _, n := range f.ml {
				hdr += n.lit + " "
			}
			hdr += "]"
		}
		files["form-"+f.name+".txt"] = append([]byte(hdr+"\n"), f.content()...)
	}
	return files
}

// judge runs p and compares every fragment with the reference model.
func judge(p *program) verdict {
	p.label()
	ref := simulate(p, variant{})
	if ref.invalid != "" {
		panic("generator emitted an invalid program (" + ref.invalid + "): " + codes(p.ops))
	}
	legacy := simulate(p, variant{postCm: true, postTd: true})
	var v verdict
	v.maxQ = ref.maxQ
	sens := false
	for i, w := range ref.out {
		if w.comparePos {
			v.compared++
			l := legacy.out[i]
			if !w.at(l.x, l.y) {
				sens = true
			}
		}
		if w.cmpSize {
			v.sized++
		}
	}
	v.outcome = "insens"
	if sens {
		v.outcome = "sens"
	}
	if ref.restoredCTM || ref.restoredText {
		v.outcome += "+restore"
	}
	if v.sized > 0 {
		v.outcome += "+size"
	}
	if len(p.fseq) > 0 && usesDo(p.ops) {
		v.outcome += "+form"
	}
	v.nontrivial = sens || ref.restoredCTM || ref.restoredText || v.compared >= 2

	var frags []text.TextFragment
	var err error
	sig, det := harness.Guard(func() { frags, err = runText(p) })
	if sig != "" {
		v.sig, v.explain = sig, func() (string, map[string][]byte) { return det, p.dump() }
		return v
	}
	if err != nil {
		v.sig, v.explain = "error-on-valid-program", func() (string, map[string][]byte) { return err.Error(), p.dump() }
		return v
	}
	var want, got []string
	for _, w := range ref.out {
		want = append(want, w.text)
	}
	for _, f := range frags {
		got = append(got, f.Text)
	}
	if strings.Join(want, "|") != strings.Join(got, "|") {
		v.sig = "fragment-mismatch"
		v.explain = func() (string, map[string][]byte) {
			return fmt.Sprintf("shown strings in execution order: want %v, got %v\nprogram: %s", want, got, oneLine(p)), p.dump()
		}
		return v
	}
	// origins
	bad, asLegacy := -1, true
	for i, w := range ref.out {
		if !w.comparePos {
			continue
		}
		f := frags[i]
		if !w.at(f.X, f.Y) {
			if bad < 0 {
				bad = i
			}
		}
		l := legacy.out[i]
		if !(math.Abs(f.X-l.x) <= w.tolx && math.Abs(f.Y-l.y) <= w.toly) {
			asLegacy = false
		}
	}
	if bad >= 0 {
		w, f := ref.out[bad], frags[bad]
		v.sig = "wrong-origin"
		extra := ""
		if asLegacy {
			// every compared origin equals what a machine computes that concatenates cm and Td on the wrong side
			v.sig = "origin-as-if-postmultiplied"
			extra = "\nall compared origins equal the model with CTM' = CTM x M and Tlm' = Tlm x T(tx,ty) (operands swapped)"
		} else if ref.qInText {
			alt := simulate(p, variant{keepTm: true})
			same := true
			for i, w := range ref.out {
				if w.comparePos && (!(math.Abs(frags[i].X-alt.out[i].x) <= w.tolx && math.Abs(frags[i].Y-alt.out[i].y) <= w.toly)) {
					same = false
				}
			}
			if same {
				v.sig = "tm-not-restored-by-Q-inside-text-object"
				extra = "\nall compared origins equal the model in which a Q inside a text object keeps the current Tm/Tlm. ISO 32000-1 does not allow q/Q inside BT..ET; " +
					"the reference here is tabula's own model (q pushes the whole GraphicsState including TextMatrix/TextLineMatrix, Q pops it)"
			}
		}
		v.explain = func() (string, map[string][]byte) {
			return fmt.Sprintf("show #%d %q (q depth %d, in form %v): want origin (%.9g, %.9g) = (0,0) x Tm x CTM, got (%.9g, %.9g)%s\nprogram: %s",
				bad, w.text, w.depth, w.inForm, w.x, w.y, f.X, f.Y, extra, oneLine(p)), p.dump()
		}
		return v
	}
	for i, w := range ref.out {
		if !w.cmpSize {
			continue
		}
		f := frags[i]
		if !near(math.Abs(f.FontSize), w.size, relTol*w.size+tolFloor) {
			v.sig = "wrong-fontsize"
			i, w := i, w
			v.explain = func() (string, map[string][]byte) {
				return fmt.Sprintf("show #%d %q: Tm and CTM are similarity transforms; want font size |Tfs| x s(Tm) x s(CTM) = %.9g, got %.9g\nprogram: %s",
					i, w.text, w.size, f.FontSize, oneLine(p)), p.dump()
			}
			return v
		}
	}
	return v
}

// ---- tq: q ... Q inside one text object --------------------------------------------------------------
//
// BT [pre] q <inner: 1..n positioning / showing / text-state operators> Q <post> Tj ET, optionally under a
// page-level cm. Outside ISO 32000-1 Figure 9 (q/Q are not allowed in text objects); the reference is tabula's
// pinned model, see ref.go (type saved). The seq space contains these programs too (up to its length bound);
// this space reaches longer ones in the quick tier and makes sure every kind of operator follows the Q.
func textQSpace(e *harness.Env) {
	n := 2
	if e.Thorough() {
		n = 3
	}
	inner := []op{opsTm[0], opsTm[3], opsTd[0], opsTD[0], opTstar, opsTL[1], opsTf[1], opTc, opTw, opTz, opTj, opQuote, opDQuote}
	pres := [][]op{nil, {opsTm[1]}, {opsTd[0]}, {opsTD[1]}, {opTj}, {opsTL[0], opsTd[2]}}
	posts := []op{opTj, opTstar, opQuote, opDQuote, opsTd[0], opsTD[1], opsTm[0]}
	pagepres := [][]op{nil, {opsCm[2]}}
	var inners [][]op
	var rec func(cur []op)
	rec = func(cur []op) {
		if len(cur) > 0 {
			inners = append(inners, append([]op{}, cur...))
		}
		if len(cur) == n {
			return
		}
		for i := range inner {
			rec(append(cur, inner[i]))
		}
	}
	rec(nil)
	for _, pp := range pagepres {
		for _, pre := range pres {
			for _, in := range inners {
				for pi := range posts {
					p := &program{shareFonts: true, textQ: true}
					p.ops = append(p.ops, opsTf[0])
					p.ops = append(p.ops, pp...)
					p.ops = append(p.ops, opBT)
					p.ops = append(p.ops, pre...)
					p.ops = append(p.ops, opq)
					p.ops = append(p.ops, in...)
					p.ops = append(p.ops, opQ, posts[pi], opTj, opET)
					desc := "space=tq pagepre=" + codes(pp) + " pre=" + codes(pre) + " inner=" + codes(in) + " post=" + posts[pi].code + " tmrot=" + yn(p.hasRotatedTm()) + " qintext=y"
					if !e.Own(desc) {
						continue
					}
					e.Begin(desc)
					v := judge(p)
					if v.sig != "" {
						det, files := v.explain()
						e.Fail(desc, v.sig, det, files)
						continue
					}
					e.Pass(desc, true, "tq:"+v.outcome)
				}
			}
		}
	}
}

// ---- noop: a q <text-state change> Q block changes nothing that follows -------------------------------------
//
// Metamorphic oracle, needs no glyph metrics: the fragments (text, origin, font size, width) produced after a
// block "q P Q" (P sets one text-state parameter to a new value; optionally followed by a show) must be the
// fragments of the same program without the block. This makes the restoration of Tc, Tw, Tz (visible only through
// glyph advances), Ts, Tr, Tf size and TL by Q observable one parameter at a time. Page-level blocks are ISO-valid
// programs; blocks inside the text object are the tabula extension (qintext=y).
func noopSpace(e *harness.Env) {
	str := func(o op, s string) op { o.s = s; return o }
	params := []struct {
		name string
		set  op // the non-default value in force before the block
		chg  op // the value set inside the block
	}{
		{"Tfs", tfOp("F1", "10"), tfOp("F1", "17")},
		{"TL", numOp("TL", "", "14"), numOp("TL", "", "3")},
		{"Tc", numOp("Tc", "", "0.25"), numOp("Tc", "", "4")},
		{"Tw", numOp("Tw", "", "1"), numOp("Tw", "", "9")},
		{"Tz", numOp("Tz", "", "120"), numOp("Tz", "", "50")},
		{"Ts", numOp("Ts", "", "2"), numOp("Ts", "", "7")},
		{"Tr", numOp("Tr", "", "0"), numOp("Tr", "", "3")},
	}
	build := func(chg *op, level, block string, tm op) *program {
		p := &program{shareFonts: true, textQ: true}
		for _, q := range params {
			p.ops = append(p.ops, q.set)
		}
		blk := func() {
			if chg == nil {
				return
			}
			p.ops = append(p.ops, opq, *chg)
			if block == "set+show" {
				p.ops = append(p.ops, str(opTj, "x y"))
			}
			p.ops = append(p.ops, opQ)
		}
		if level == "page" {
			blk()
		}
		p.ops = append(p.ops, opBT, tm, str(opTj, "A b"))
		if level == "text" {
			blk()
		}
		p.ops = append(p.ops, str(opTj, "C d"), opTstar, str(opTj, "E f"), str(opTj, "G h"), str(opQuote, "I j"), str(opTj, "K l"), opET)
		return p
	}
	for pi := range params {
		for _, level := range []string{"page", "text"} {
			for _, block := range []string{"set", "set+show"} {
				if level == "page" && block == "set+show" {
					continue
				}
				for _, tm := range []op{opsTm[0], opsTm[1], opsTm[3]} {
					desc := harness.D("space", "noop", "param", params[pi].name, "level", level, "block", block, "tm", tm.code, "qintext", yn(level == "text"))
					if !e.Own(desc) {
						continue
					}
					e.Begin(desc)
					with, base := build(&params[pi].chg, level, block, tm), build(nil, level, block, tm)
					var fw, fb []text.TextFragment
					var ew, eb error
					sig, det := harness.Guard(func() { fw, ew = runText(with); fb, eb = runText(base) })
					files := map[string][]byte{"with-block.txt": streamBytes(with.ops), "without-block.txt": streamBytes(base.ops)}
					if sig != "" {
						e.Fail(desc, sig, det, files)
						continue
					}
					if ew != nil || eb != nil {
						e.Fail(desc, "error-on-valid-program", fmt.Sprint(ew, eb), files)
						continue
					}
					var kept []text.TextFragment
					for _, f := range fw {
						if f.Text != "x y" {
							kept = append(kept, f)
						}
					}
					bad := ""
					if len(kept) != len(fb) || len(fb) != 6 {
						bad = fmt.Sprintf("fragment count: %d with the block (block's own show removed), %d without, expected 6", len(kept), len(fb))
					} else {
						for i := range fb {
							a, b := kept[i], fb[i]
							eq := func(x, y float64) bool { return near(x, y, relTol*math.Max(math.Abs(x), math.Abs(y))+tolFloor) }
							if a.Text != b.Text || !eq(a.X, b.X) || !eq(a.Y, b.Y) || !eq(a.FontSize, b.FontSize) || !eq(a.Width, b.Width) {
								bad = fmt.Sprintf("fragment #%d: with block %q (%.9g, %.9g) size %.9g width %.9g; without %q (%.9g, %.9g) size %.9g width %.9g",
									i, a.Text, a.X, a.Y, a.FontSize, a.Width, b.Text, b.X, b.Y, b.FontSize, b.Width)
								break
							}
						}
					}
					if bad != "" {
						e.Fail(desc, "q-Q-block-not-a-noop", bad+"\nwith block: "+strings.ReplaceAll(strings.TrimSpace(string(streamBytes(with.ops))), "\n", " "), files)
						continue
					}
					e.Pass(desc, true, "noop:"+params[pi].name)
				}
			}
		}
	}
}

// ---- mag: magnitude classes of cm, Tm and Form /Matrix -------------------------------------------------------
//
// "arbitrary affine matrices": scales 1e-4, 5e-4, 1e-3, 1e3, 1e4 in four shapes (uniform, non-uniform, rotated 90,
// rotated 30; all with a non-zero translation), two nearly singular but invertible shears (determinant 1e-4 and
// 1e-7) and two ordinary matrices; chains of them (so that 1000x followed by 0.0005x and the reverse occur) as cm,
// as Tm and as Form /Matrix, for text and for GraphicsExtractor segments.
func magMatrices() []namedMat {
	f := func(v float64) string { return strconv.FormatFloat(v, 'f', -1, 64) }
	c30 := 0.8660254037844386
	var out []namedMat
	for _, sc := range []struct {
		name string
		v    float64
	}{{"1e-4", 0.0001}, {"5e-4", 0.0005}, {"1e-3", 0.001}, {"1e3", 1000}, {"1e4", 10000}} {
		s := sc.v
		out = append(out,
			namedMat{"u" + sc.name, [6]string{f(s), "0", "0", f(s), "30", "40"}},
			namedMat{"n" + sc.name, [6]string{f(4 * s), "0", "0", f(0.8 * s), "5", "-7"}},
			namedMat{"r90_" + sc.name, [6]string{"0", f(s), f(-s), "0", "300", "0"}},
			namedMat{"r30_" + sc.name, [6]string{f(s * c30), f(s / 2), f(-s / 2), f(s * c30), "11", "13"}})
	}
	out = append(out,
		namedMat{"sh1e-4", [6]string{"1", "1", "1", "1.0001", "3", "4"}},
		namedMat{"sh1e-7", [6]string{"1", "1", "1", "1.0000001", "3", "4"}},
		cmMats[0], cmMats[1])
	return out
}

func magSpace(e *harness.Env) {
	mats := magMatrices()
	maxChain := 2
	if e.Thorough() {
		maxChain = 3
	}
	var chains [][]namedMat
	var rec func(cur []namedMat)
	rec = func(cur []namedMat) {
		if len(cur) > 0 {
			chains = append(chains, append([]namedMat{}, cur...))
		}
		if len(cur) == maxChain {
			return
		}
		for _, m := range mats {
			rec(append(cur, m))
		}
	}
	rec(nil)
	chainName := func(c []namedMat) string {
		var n []string
		for _, m := range c {
			n = append(n, m.name)
		}
		if len(n) == 0 {
			return "-"
		}
		return strings.Join(n, ",")
	}
	run := func(desc string, p *program) {
		if !e.Own(desc) {
			return
		}
		e.Begin(desc)
		v := judge(p)
		if v.sig != "" {
			det, files := v.explain()
			e.Fail(desc, v.sig, det, files)
			return
		}
		e.Pass(desc, true, "mag:"+v.outcome)
	}
	big := matOp("Tm", namedMat{"x2000", [6]string{"2000", "0", "0", "2000", "1", "2"}})
	texts := []struct {
		name string
		ops  []op
	}{
		{"td", []op{opBT, opsTd[0], opTj, opET}},
		{"tm12-td", []op{opBT, opsTm[1], opsTd[1], opTj, opET}},
		{"tm2000-tstar", []op{opBT, big, opTstar, opTj, opET}},
	}
	// (a) chains of cm, text inside, text after the Q
	for _, ch := range chains {
		for _, tx := range texts {
			p := &program{shareFonts: true}
			p.ops = append(p.ops, opsTf[0], opsTL[0], opq)
			for _, m := range ch {
				p.ops = append(p.ops, matOp("cm", m))
			}
			p.ops = append(p.ops, tx.ops...)
			p.ops = append(p.ops, opQ, opBT, opsTd[0], opTj, opET)
			run(harness.D("space", "mag", "kind", "cm", "chain", chainName(ch), "text", tx.name), p)
		}
	}
	// (b) Tm of every class, followed by each line-matrix relative move, under a few CTMs
	ctms := [][]namedMat{nil, {cmMats[2]}, {mats[4]}, {mats[12]}} // none, ordinary non-uniform, u5e-4, u1e3
	for _, ctm := range ctms {
		for _, m := range mats {
			for _, after := range []op{opTj, opsTd[0], opTstar, opsTD[0], opQuote} {
				p := &program{shareFonts: true}
				p.ops = append(p.ops, opsTf[0], opsTL[0])
				for _, c := range ctm {
					p.ops = append(p.ops, matOp("cm", c))
				}
				p.ops = append(p.ops, opBT, matOp("Tm", m), after)
				if !isShow(after.k) {
					p.ops = append(p.ops, opTj)
				}
				p.ops = append(p.ops, opET)
				run(harness.D("space", "mag", "kind", "tm", "ctm", chainName(ctm), "tm", m.name, "after", after.code), p)
			}
		}
	}
	// (c) Form /Matrix of every class under no / every outer cm
	for _, outer := range append([][]namedMat{nil}, chains[:len(mats)]...) {
		for _, m := range mats {
			for _, wrap := range []string{"bare", "q"} {
				var oo []op
				for _, c := range outer {
					oo = append(oo, matOp("cm", c))
				}
				p := buildFormProgram(oo, m, false, false, "td", wrap, "td")
				run(harness.D("space", "mag", "kind", "form", "outer", chainName(outer), "matrix", m.name, "wrap", wrap), p)
			}
		}
	}
	// (d) the same cm chains through GraphicsExtractor
	seg := numOp("line", "", "3", "4", "13", "9")
	seg.code = "seg"
	for _, ch := range chains {
		desc := harness.D("space", "mag", "kind", "gfx", "chain", chainName(ch))
		if !e.Own(desc) {
			continue
		}
		p := &program{}
		p.ops = append(p.ops, opq)
		for _, m := range ch {
			p.ops = append(p.ops, matOp("cm", m), seg)
		}
		p.ops = append(p.ops, opQ, seg)
		e.Begin(desc)
		judgeGfx(e, desc, p)
	}
}

func usesDo(ops []op) bool {
	for i := range ops {
		if ops[i].k == "Do" {
			return true
		}
	}
	return false
}

func oneLine(p *program) string {
	s := strings.ReplaceAll(strings.TrimSpace(string(streamBytes(p.ops))), "\n", " ")
	for _, f := range p.fseq {
		s += "  || form /" + f.name
		if f.hasMatrix {
			s += " Matrix["
			for i, n := range f.ml {
				if i > 0 {
					s += " "
				}
				s += n.lit
			}
			s += "]"
		}
		s += fmt.Sprintf(": %q", strings.TrimSpace(string(f.content())))
	}
	return s
}

func yn(b bool) string {
	if b {
		return "y"
	}
	return "n"
}

// ---- seq: every valid program up to a length -------------------------------------------------

// the form available to seq and long programs: non-uniform /Matrix, and a body that changes the
// CTM and the leading without q/Q (the implicit save/restore around Do must undo both)
func stdForm(ml namedMat, hasMatrix bool) *form {
	f := &form{name: "Fm0", hasMatrix: hasMatrix}
	if hasMatrix {
		m := matOp("cm", ml)
		f.matrix, f.ml = m.m, m.ml
	}
	f.ops = []op{matOp("cm", namedMat{"half", [6]string{"0.5", "0", "0", "0.5", "1", "1"}}), numOp("TL", "f", "9"),
		opBT, numOp("Td", "f", "5", "6"), opTj, opET}
	return f
}

var fmS = namedMat{"FS", [6]string{"3", "0", "0", "2", "10", "20"}}

var pageAlpha [2][]op

func pageAlphabet(depth int) []op {
	k := 0
	if depth > 0 {
		k = 1
	}
	if pageAlpha[k] == nil {
		pageAlpha[k] = buildPageAlphabet(depth)
	}
	return pageAlpha[k]
}

func buildPageAlphabet(depth int) []op {
	a := []op{opq}
	if depth > 0 {
		a = append(a, opQ)
	}
	a = append(a, opsCm...)
	a = append(a, opBT)
	a = append(a, opsTL...)
	a = append(a, opsTf...)
	a = append(a, doOp("Fm0"))
	return a
}

var textAlphabet []op

func setup() {
	setupAlphabet()
	if len(textAlphabet) > 0 {
		return
	}
	textAlphabet = append(textAlphabet, opET)
	textAlphabet = append(textAlphabet, opsTm...)
	textAlphabet = append(textAlphabet, opsTd...)
	textAlphabet = append(textAlphabet, opsTD...)
	textAlphabet = append(textAlphabet, opTstar)
	textAlphabet = append(textAlphabet, opsTL...)
	textAlphabet = append(textAlphabet, opsTf...)
	textAlphabet = append(textAlphabet, opTc, opTw, opTz, opTj, opQuote, opDQuote)
}

// complete turns an operator sequence into a whole program: font prologue, closing show, ET, Qs.
func complete(seq []op, st pos) *program {
	p := &program{shareFonts: true, textQ: true}
	p.ops = make([]op, 0, len(seq)+4+st.depth)
	p.ops = append(p.ops, opsTf[0])
	p.ops = append(p.ops, seq...)
	if !st.inText {
		p.ops = append(p.ops, opBT)
	}
	p.ops = append(p.ops, opTj)
	for i := 0; i < st.tdepth; i++ {
		p.ops = append(p.ops, opQ) // q opened inside this text object
	}
	p.ops = append(p.ops, opET)
	for i := 0; i < st.depth-st.tdepth; i++ {
		p.ops = append(p.ops, opQ)
	}
	// every Do gets its own (identical) copy of the form: tabula drops a fragment that repeats the text
	// of an earlier one at the same rounded position (layer de-duplication), so two invocations of one
	// form under the same CTM would legitimately yield a single fragment
	k := 0
	for i := range p.ops {
		if p.ops[i].k == "Do" {
			f := stdForm(fmS, true)
			f.name = fmt.Sprintf("Fm%d", k)
			p.ops[i].name = f.name
			p.addForm(f)
			k++
		}
	}
	return p
}

// pos is the state of the program grammar: inside a text object or not, number of open q, and how many
// of them were opened inside the current text object (those must be closed before ET).
type pos struct {
	inText        bool
	depth, tdepth int
}

var textAlpha [2][]op

// nextOps lists the operators that may follow in state st. Page level: ISO 32000-1 Figure 9. Inside a
// text object additionally q and a Q matching a q of the same text object (tabula extension, qintext=y).
func nextOps(st pos) []op {
	if !st.inText {
		return pageAlphabet(st.depth)
	}
	if textAlpha[0] == nil {
		textAlpha[0] = append(append([]op{}, textAlphabet...), opq)
		textAlpha[1] = append(append([]op{}, textAlphabet[1:]...), opq, opQ) // no ET while a q of this text object is open
	}
	if st.tdepth > 0 {
		return textAlpha[1]
	}
	return textAlpha[0]
}

func advance(o *op, st pos) pos {
	switch o.k {
	case "BT":
		st.inText, st.tdepth = true, 0
	case "ET":
		st.inText = false
	case "q":
		st.depth++
		if st.inText {
			st.tdepth++
		}
	case "Q":
		st.depth--
		if st.inText {
			st.tdepth--
		}
	}
	return st
}

func qInText(seq []op) bool {
	in := false
	for i := range seq {
		switch seq[i].k {
		case "BT":
			in = true
		case "ET":
			in = false
		case "q":
			if in {
				return true
			}
		}
	}
	return false
}

func step(o *op, inText bool, depth int) (bool, int) {
	switch o.k {
	case "BT":
		return true, depth
	case "ET":
		return false, depth
	case "q":
		return inText, depth + 1
	case "Q":
		return inText, depth - 1
	}
	return inText, depth
}

// seqDesc is harness.D("space","seq","group",…,"prog",…,"tmrot",…) without the per-value cleaning
// (operator codes contain no white space).
func seqDesc(prefix, seq []op, rot, qit string) string {
	return "space=seq group=" + codes(prefix) + " prog=" + codes(seq) + " tmrot=" + rot + " qintext=" + qit
}

func seqSpace(e *harness.Env) {
	L, G := 5, 3
	if e.Thorough() {
		L = 6
	}
	e.Note("seq_max_operators", fmt.Sprint(L))
	var programs, failing, groups int64
	var maxDepth int64

	type cls struct{ sig, rot, qit string }
	var walkGroup func(prefix []op, seq []op, st pos, room int, seen map[cls]bool)
	evalOne := func(prefix, seq []op, st pos, seen map[cls]bool) {
		p := complete(seq, st)
		rot := yn(p.hasRotatedTm())
		qit := yn(qInText(seq))
		var desc string
		if e.Replaying() {
			desc = seqDesc(prefix, seq, rot, qit)
			if !e.Own(desc) {
				return
			}
		}
		v := judge(p)
		programs++
		if int64(v.maxQ) > maxDepth {
			maxDepth = int64(v.maxQ)
		}
		if v.sig == "" {
			if desc == "" {
				desc = seqDesc(prefix, seq, rot, qit)
			}
			e.Pass(desc, v.nontrivial, v.outcome)
			return
		}
		failing++
		k := cls{v.sig, rot, qit}
		if seen[k] {
			return
		}
		seen[k] = true
		if desc == "" {
			desc = seqDesc(prefix, seq, rot, qit)
		}
		det, files := v.explain()
		e.Fail(desc, v.sig, det, files)
	}
	walkGroup = func(prefix, seq []op, st pos, room int, seen map[cls]bool) {
		evalOne(prefix, seq, st, seen)
		if room == 0 {
			return
		}
		alpha := nextOps(st)
		for i := range alpha {
			walkGroup(prefix, append(seq[:len(seq):len(seq)], alpha[i]), advance(&alpha[i], st), room-1, seen)
		}
	}
	var walk func(prefix []op, st pos)
	walk = func(prefix []op, st pos) {
		gdesc := harness.D("space", "seq", "group", codes(prefix))
		room := 0
		if len(prefix) == G {
			room = L - G
		}
		if e.Replaying() || e.Own(gdesc) {
			groups++
			e.Begin(gdesc)
			walkGroup(prefix, prefix, st, room, map[cls]bool{})
			e.End()
		}
		if len(prefix) == G {
			return
		}
		alpha := nextOps(st)
		for i := range alpha {
			walk(append(prefix[:len(prefix):len(prefix)], alpha[i]), advance(&alpha[i], st))
		}
	}
	walk(nil, pos{})
	if !e.Replaying() {
		e.Add("seq_programs", programs)
		e.Add("programs_failing", failing)
		e.Add("seq_groups", groups)
		e.Max("seq_max_q_depth", maxDepth)
	}
}

// ---- long: length-40 skeleton, q/Q depth 8, Form XObject at depth 8 --------------------------

func pickOp(c *harness.Ctx, label string, opts []op) op {
	names := make([]string, len(opts))
	for i := range opts {
		names[i] = opts[i].code
	}
	return harness.Pick(c, label, names, opts)
}

func longSpace(e *harness.Env) {
	bound := 2
	if e.Thorough() {
		bound = 3
	}
	e.Note("long_deviation_bound", fmt.Sprint(bound))
	var tpos []op
	tpos = append(tpos, opsTd...)
	tpos = append(tpos, opsTD...)
	tpos = append(tpos, opTstar)
	tpos = append(tpos, opsTm...)
	shows := []op{opTj, opQuote, opDQuote}
	tstate := []op{opsTL[0], opsTL[1], opsTf[1], opTc, opTw, opTz}
	fmats := append([]namedMat{}, cmMats...)
	e.Explore("space=long", bound, func(c *harness.Ctx) {
		p := &program{}
		add := func(o ...op) { p.ops = append(p.ops, o...) }
		textObj := func(i int) {
			add(opBT, pickOp(c, fmt.Sprintf("tp%d", i), tpos), pickOp(c, fmt.Sprintf("sh%d", i), shows), opET)
		}
		add(opsTf[0])
		add(opq, pickOp(c, "cm1", opsCm), pickOp(c, "ts1", tstate))
		textObj(1)
		add(opq, pickOp(c, "cm2", opsCm), opq, pickOp(c, "cm3", opsCm))
		add(opq, pickOp(c, "cm4", opsCm))
		textObj(2)
		add(opq, opq, pickOp(c, "cm5", opsCm), opq, opq)
		add(doOp("Fm0"))
		add(opQ, opQ, opQ, opQ, opQ)
		textObj(3)
		add(opQ, opQ, opQ)
		textObj(4)
		fi := c.Choose("fmatrix", len(fmats)+1)
		if fi < len(fmats) {
			c.Tag("fm", fmats[fi].name)
			p.addForm(stdForm(fmats[fi], true))
		} else {
			c.Tag("fm", "none")
			p.addForm(stdForm(namedMat{}, false))
		}
		// body of the form invoked at depth 8: the standard one, or an operator-less one
		switch c.PickS("fbody", "std", "empty", "comment") {
		case "empty":
			p.fseq[0].ops, p.fseq[0].rawSet, p.fseq[0].raw = nil, true, []byte{}
		case "comment":
			p.fseq[0].ops, p.fseq[0].rawSet, p.fseq[0].raw = nil, true, []byte("% nothing to paint\n")
		}
		c.Tag("tmrot", yn(p.hasRotatedTm()))
		if !c.Counted() {
			return
		}
		v := judge(p)
		e.Max("long_program_operators", int64(len(p.ops)))
		e.Max("long_max_q_depth", int64(v.maxQ))
		if v.sig != "" {
			det, files := v.explain()
			c.Fail(v.sig, det, files)
			return
		}
		c.Pass(v.outcome)
	})
}

// ---- form: Form XObject /Matrix -----------------------------------------------------------------

func formSpace(e *harness.Env) {
	var outers [][]op
	outers = append(outers, nil)
	for i := range opsCm {
		outers = append(outers, []op{opsCm[i]})
	}
	for i := range opsCm {
		for j := range opsCm {
			outers = append(outers, []op{opsCm[i], opsCm[j]})
		}
	}
	if e.Thorough() {
		for i := range opsCm {
			for j := range opsCm {
				for k := range opsCm {
					outers = append(outers, []op{opsCm[i], opsCm[j], opsCm[k]})
				}
			}
		}
	}
	fmats := append([]namedMat{{name: "none"}}, cmMats...)
	// form bodies: with text, nested, changing CTM/leading/font without q, and operator-less ones (zero
	// bytes, white space, comment), a state-only one and an operator-less nested form. Bodies that end inside
	// a text object or with an unmatched q are NOT generated: ISO 32000-1 8.4.2 / 9.4.1 require q/Q and BT/ET
	// to be balanced within a content stream, so the property says nothing about them
	bodies := []string{"td", "inner-q-cm-tm", "nested", "leak", "empty", "ws", "comment", "stateonly", "nested-empty"}
	showless := map[string]bool{"empty": true, "ws": true, "comment": true, "stateonly": true}
	// invocation contexts: bare Do; q Do Q; q cm Do Q; two q levels with text between the Qs;
	// twelve invocations in a row followed by a form that shows text (nesting bookkeeping)
	wraps := []string{"bare", "q", "qcm", "qq", "seq12"}
	posts := []string{"td", "tstar"}
	for _, outer := range outers {
		for _, fm := range fmats {
			for _, xref := range []string{"direct", "indirect"} {
				for _, mref := range []string{"direct", "indirect"} {
					if fm.name == "none" && mref == "indirect" {
						continue
					}
					for _, body := range bodies {
						for _, wrap := range wraps {
							if wrap == "seq12" && !showless[body] {
								continue // identical fragments of repeated invocations would be de-duplicated
							}
							for _, post := range posts {
								desc := harness.D("space", "form", "outer", codes(outer), "matrix", fm.name, "xobj", xref, "mref", mref, "body", body, "wrap", wrap, "post", post)
								if !e.Own(desc) {
									continue
								}
								p := buildFormProgram(outer, fm, xref == "indirect", mref == "indirect", body, wrap, post)
								e.Begin(desc)
								v := judge(p)
								if v.sig != "" {
									det, files := v.explain()
									e.Fail(desc, v.sig, det, files)
									continue
								}
								e.Pass(desc, v.nontrivial, v.outcome)
							}
						}
					}
				}
			}
		}
	}
}

func buildFormProgram(outer []op, fm namedMat, xind, mind bool, body string, wrap string, post string) *program {
	p := &program{shareFonts: true}
	f := &form{name: "Fm0", indirect: xind, matrixIndr: mind}
	if fm.name != "none" {
		m := matOp("cm", fm)
		f.hasMatrix, f.matrix, f.ml = true, m.m, m.ml
	}
	switch body {
	case "td":
		f.ops = []op{opBT, numOp("Td", "f", "5", "6"), opTj, opET}
	case "inner-q-cm-tm":
		f.ops = []op{opq, matOp("cm", namedMat{"in", [6]string{"2", "0", "0", "2", "1", "1"}}), opBT, opsTm[1], opTj, opET, opQ, opBT, opTj, opET}
	case "nested":
		f.ops = []op{matOp("cm", namedMat{"in", [6]string{"1", "0", "0", "1", "7", "7"}}), doOp("Fm1"), opBT, opsTd[0], opTj, opET}
		g := &form{name: "Fm1", hasMatrix: true, indirect: !xind}
		m := matOp("cm", namedMat{"g", [6]string{"0", "1", "-1", "0", "3", "4"}})
		g.matrix, g.ml = m.m, m.ml
		g.ops = []op{opBT, numOp("Td", "g", "2", "9"), opTj, opET}
		defer p.addForm(g)
	case "leak":
		f.ops = []op{matOp("cm", namedMat{"in", [6]string{"3", "0", "0", "3", "0", "0"}}), numOp("TL", "f", "9"), opsTf[1], opBT, opTj, opET}
	case "empty":
		f.rawSet, f.raw = true, []byte{}
	case "ws":
		f.rawSet, f.raw = true, []byte(" \r\n\t\n")
	case "comment":
		f.rawSet, f.raw = true, []byte("% placeholder appearance, draws nothing\n")
	case "stateonly":
		f.ops = []op{matOp("cm", namedMat{"in", [6]string{"3", "0", "0", "3", "0", "0"}}), numOp("TL", "f", "9"), opsTf[1]}
	case "nested-empty":
		f.ops = []op{matOp("cm", namedMat{"in", [6]string{"1", "0", "0", "1", "7", "7"}}), doOp("Fm1"), opBT, opsTd[0], opTj, opET}
		g := &form{name: "Fm1", hasMatrix: true, indirect: !xind, rawSet: true, raw: []byte("%\n")}
		m := matOp("cm", namedMat{"g", [6]string{"0", "1", "-1", "0", "3", "4"}})
		g.matrix, g.ml = m.m, m.ml
		defer p.addForm(g)
	}
	p.addForm(f)
	p.ops = append(p.ops, opsTf[0], opsTL[0])
	p.ops = append(p.ops, outer...)
	switch wrap {
	case "bare":
		p.ops = append(p.ops, doOp("Fm0"))
	case "q":
		p.ops = append(p.ops, opq, doOp("Fm0"), opQ)
	case "qcm":
		p.ops = append(p.ops, opq, opsCm[2], doOp("Fm0"), opQ)
	case "qq":
		p.ops = append(p.ops, opq, opsCm[2], opsTL[1], opq, opsCm[3], doOp("Fm0"), opQ, opBT, opTstar, opTj, opET, opQ)
	case "seq12":
		for i := 0; i < 12; i++ {
			p.ops = append(p.ops, doOp("Fm0"))
		}
		t := &form{name: "FmT", hasMatrix: true}
		m := matOp("cm", cmMats[1])
		t.matrix, t.ml = m.m, m.ml
		t.ops = []op{opBT, numOp("Td", "t", "5", "6"), opTj, opET}
		defer p.addForm(t)
		p.ops = append(p.ops, doOp("FmT"))
	}
	p.ops = append(p.ops, opBT)
	if post == "td" {
		p.ops = append(p.ops, numOp("Td", "p", "1", "2"))
	} else {
		p.ops = append(p.ops, opTstar)
	}
	p.ops = append(p.ops, opTj, opET)
	return p
}

// ---- gfx: the same CTM arithmetic observed through GraphicsExtractor -------------------------------

func gfxSpace(e *harness.Env) {
	L := 4
	if e.Thorough() {
		L = 6
	}
	seg := numOp("line", "", "3", "4", "13", "9")
	seg.code = "seg"
	var walk func(seq []op, depth int)
	walk = func(seq []op, depth int) {
		desc := harness.D("space", "gfx", "prog", codes(seq))
		if e.Own(desc) {
			p := &program{}
			for i := range seq {
				p.ops = append(p.ops, seq[i])
				if seq[i].k != "q" {
					p.ops = append(p.ops, seg)
				}
			}
			p.ops = append(p.ops, seg)
			for i := 0; i < depth; i++ {
				p.ops = append(p.ops, opQ)
			}
			e.Begin(desc)
			judgeGfx(e, desc, p)
		}
		if len(seq) == L {
			return
		}
		a := []op{opq}
		if depth > 0 {
			a = append(a, opQ)
		}
		a = append(a, opsCm...)
		for i := range a {
			_, d := step(&a[i], false, depth)
			walk(append(seq[:len(seq):len(seq)], a[i]), d)
		}
	}
	walk(nil, 0)
}

func judgeGfx(e *harness.Env, desc string, p *program) {
	ref := simulate(p, variant{})
	if ref.invalid != "" {
		panic("generator emitted an invalid gfx program: " + ref.invalid)
	}
	legacy := simulate(p, variant{postCm: true})
	var lines []graphicsstate.ExtractedLine
	var err error
	data := streamBytes(p.ops)
	files := map[string][]byte{"content.txt": data}
	sig, det := harness.Guard(func() {
		ge := graphicsstate.NewGraphicsExtractor()
		err = ge.ExtractFromBytes(data)
		lines = ge.GetLines()
	})
	if sig != "" {
		e.Fail(desc, sig, det, files)
		return
	}
	if err != nil {
		e.Fail(desc, "error-on-valid-program", err.Error(), files)
		return
	}
	if 2*len(lines) != len(ref.out) {
		e.Fail(desc, "segment-count", fmt.Sprintf("want %d stroked segments, got %d", len(ref.out)/2, len(lines)), files)
		return
	}
	bad, asLegacy, sens := -1, true, false
	for i, l := range lines {
		pts := [2][2]float64{{l.Start.X, l.Start.Y}, {l.End.X, l.End.Y}}
		for k := 0; k < 2; k++ {
			w, lg := ref.out[2*i+k], legacy.out[2*i+k]
			if !w.at(pts[k][0], pts[k][1]) {
				if bad < 0 {
					bad = 2*i + k
				}
			}
			if !(math.Abs(pts[k][0]-lg.x) <= w.tolx && math.Abs(pts[k][1]-lg.y) <= w.toly) {
				asLegacy = false
			}
			if !w.at(lg.x, lg.y) {
				sens = true
			}
		}
	}
	if bad >= 0 {
		w := ref.out[bad]
		l := lines[bad/2]
		s, extra := "wrong-endpoint", ""
		if asLegacy {
			s, extra = "endpoint-as-if-postmultiplied", "\nall endpoints equal the model with CTM' = CTM x M (operands swapped)"
		}
		e.Fail(desc, s, fmt.Sprintf("segment #%d endpoint %d: want (%.9g, %.9g) = p x CTM, got start (%.9g, %.9g) end (%.9g, %.9g)%s\nprogram: %s",
			bad/2, bad%2, w.x, w.y, l.Start.X, l.Start.Y, l.End.X, l.End.Y, extra, strings.ReplaceAll(strings.TrimSpace(string(data)), "\n", " ")), files)
		return
	}
	out := "gfx-insens"
	if sens {
		out = "gfx-sens"
	}
	if ref.restoredCTM {
		out += "+restore"
	}
	e.Pass(desc, sens || ref.restoredCTM, out)
}
