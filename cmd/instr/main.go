// instr — source-to-source instrumenter for tabula, applied through `go build -overlay`.
//
//	instr -repo /repo -out DIR [-yield] [-maporder] [-budgets]
//
// Loads the packages of the tabula checkout at -repo (types included), writes instrumented copies of
// the files it changes plus the virtual package <repo>/verifrt into DIR and DIR/overlay.json.
// Nothing is written under -repo. Rewrites (independently switchable):
//
//	-yield     verifrt.Yield(site) before every statement that syntactically touches a mutable
//	           package-level variable (classification recomputed from the tree on every run), and a
//	           generated dump of those variables (state key for history exploration)
//	-maporder  `for k, v := range m` over maps with basic key types iterates verifrt.Keys(m, site)
//	-budgets   verifrt.Tick at function entry and loop heads, Enter/Leave depth counter, guarded
//	           make()/strings.Repeat sizes
package main

import (
	"bytes"
	"encoding/json"
	"flag"
	"fmt"
	"go/ast"
	"go/format"
	"go/token"
	"go/types"
	"os"
	"path/filepath"
	"sort"
	"strings"

	"golang.org/x/tools/go/ast/astutil"
	"golang.org/x/tools/go/packages"
)

const rtImport = "github.com/tsawler/tabula/verifrt"

var (
	repo      = flag.String("repo", "/repo", "tabula checkout")
	out       = flag.String("out", "", "output directory")
	doYield   = flag.Bool("yield", false, "insert yield points + state dump")
	doMap     = flag.Bool("maporder", false, "map-order seam")
	doBudgets = flag.Bool("budgets", false, "step/depth/alloc budgets")
	rtSrc     = flag.String("rt", "/verif/internal/verifrt_src/verifrt.go.txt", "runtime source")
)

type report struct {
	Files          int                 `json:"files"`
	MutableGlobals map[string][]string `json:"mutable_globals"`
	PackageVars    int                 `json:"package_level_vars"`
	YieldSites     []string            `json:"yield_sites"`
	MapSites       []string            `json:"map_sites"`
	MapSkipped     []string            `json:"map_sites_uncontrolled"`
	TickSites      int                 `json:"tick_sites"`
	AllocGuards    int                 `json:"alloc_guards"`
	Funcs          int                 `json:"functions"`
	Loops          int                 `json:"loops"`
}

var rep = report{MutableGlobals: map[string][]string{}}

func call(fn string, args ...ast.Expr) *ast.CallExpr {
	return &ast.CallExpr{Fun: &ast.SelectorExpr{X: ast.NewIdent("verifrt"), Sel: ast.NewIdent(fn)}, Args: args}
}
func lit(n int64) ast.Expr { return &ast.BasicLit{Kind: token.INT, Value: fmt.Sprint(n)} }

func main() {
	flag.Parse()
	if *out == "" {
		fmt.Fprintln(os.Stderr, "need -out")
		os.Exit(2)
	}
	cfg := &packages.Config{Mode: packages.NeedName | packages.NeedFiles | packages.NeedSyntax | packages.NeedTypes | packages.NeedTypesInfo | packages.NeedTypesSizes, Dir: *repo}
	pkgs, err := packages.Load(cfg, "./...")
	if err != nil {
		fmt.Fprintln(os.Stderr, err)
		os.Exit(2)
	}
	if abs, err := filepath.Abs(*out); err == nil {
		*out = abs
	}
	os.RemoveAll(*out)
	os.MkdirAll(*out, 0o755)
	for _, p := range pkgs {
		if len(p.Errors) > 0 {
			fmt.Fprintln(os.Stderr, "package errors in", p.PkgPath, p.Errors)
			os.Exit(2)
		}
	}
	mutable := map[*types.Var]bool{}
	if *doYield {
		mutable = classify(pkgs)
	}
	overlay := map[string]string{}
	for _, p := range pkgs {
		if strings.HasSuffix(p.PkgPath, "/ocr") {
			continue
		}
		pi := &pkgInstr{p: p, mutable: mutable}
		var dumpVars []*types.Var
		if *doYield {
			for v := range mutable {
				if v.Pkg() == p.Types {
					dumpVars = append(dumpVars, v)
				}
			}
			sort.Slice(dumpVars, func(i, j int) bool { return dumpVars[i].Name() < dumpVars[j].Name() })
		}
		for fi, f := range p.Syntax {
			fn := p.Fset.File(f.Pos()).Name()
			if strings.HasSuffix(fn, "_test.go") {
				continue
			}
			changed := pi.instrument(f)
			_ = fi
			if !changed {
				continue
			}
			astutil.AddImport(p.Fset, f, rtImport)
			var buf bytes.Buffer
			if err := format.Node(&buf, p.Fset, f); err != nil {
				fmt.Fprintln(os.Stderr, fn, err)
				os.Exit(2)
			}
			dst := filepath.Join(*out, strings.ReplaceAll(strings.TrimPrefix(fn, *repo+"/"), "/", "__"))
			os.WriteFile(dst, buf.Bytes(), 0o644)
			overlay[fn] = dst
			rep.Files++
		}
		// per-package generated file: site registration + dumps
		if len(pi.tickNames)+len(pi.yieldNames)+len(pi.mapNames)+len(dumpVars) > 0 && len(p.GoFiles) > 0 {
			var g bytes.Buffer
			fmt.Fprintf(&g, "package %s\n\nimport \"%s\"\n\n", p.Name, rtImport)
			fmt.Fprintf(&g, "var verifTickBase = verifrt.RegisterSites(%#v)\n", pi.tickNames)
			fmt.Fprintf(&g, "var verifYieldBase = verifrt.RegisterYieldSites(%#v)\n", pi.yieldNames)
			fmt.Fprintf(&g, "var verifMapBase = verifrt.RegisterMapSites(%#v)\n", pi.mapNames)
			if len(dumpVars) > 0 {
				g.WriteString("\nfunc init() {\n")
				for _, v := range dumpVars {
					fmt.Fprintf(&g, "\tverifrt.RegisterDump(%q, func() interface{} { return &%s })\n", p.PkgPath[strings.LastIndex(p.PkgPath, "/")+1:]+"."+v.Name(), v.Name())
				}
				g.WriteString("}\n")
			}
			dir := filepath.Dir(p.GoFiles[0])
			virt := filepath.Join(dir, "verif_sites_gen.go")
			dst := filepath.Join(*out, strings.ReplaceAll(strings.TrimPrefix(virt, *repo+"/"), "/", "__"))
			os.WriteFile(dst, g.Bytes(), 0o644)
			overlay[virt] = dst
		}
		rep.YieldSites = append(rep.YieldSites, pi.yieldNames...)
		rep.MapSites = append(rep.MapSites, pi.mapNames...)
		rep.TickSites += len(pi.tickNames)
	}
	rt, err := os.ReadFile(*rtSrc)
	if err != nil {
		fmt.Fprintln(os.Stderr, err)
		os.Exit(2)
	}
	rtDst := filepath.Join(*out, "verifrt.go")
	os.WriteFile(rtDst, rt, 0o644)
	overlay[filepath.Join(*repo, "verifrt", "verifrt.go")] = rtDst
	b, _ := json.MarshalIndent(map[string]interface{}{"Replace": overlay}, "", " ")
	os.WriteFile(filepath.Join(*out, "overlay.json"), b, 0o644)
	rb, _ := json.MarshalIndent(rep, "", " ")
	os.WriteFile(filepath.Join(*out, "report.json"), rb, 0o644)
	fmt.Printf("instr: files=%d mutable_globals=%d yield_sites=%d map_sites=%d tick_sites=%d alloc_guards=%d\n",
		rep.Files, len(rep.MutableGlobals), len(rep.YieldSites), len(rep.MapSites), rep.TickSites, rep.AllocGuards)
}

// ---------------------------------------------------------------------------------------------
// classification of mutable package-level variables

func pkgVar(info *types.Info, id *ast.Ident) *types.Var {
	if id == nil {
		return nil
	}
	var obj types.Object = info.Uses[id]
	if obj == nil {
		obj = info.Defs[id]
	}
	v, ok := obj.(*types.Var)
	if !ok || v.Pkg() == nil || v.Parent() != v.Pkg().Scope() {
		return nil
	}
	return v
}

// rootIdent finds the identifier an lvalue-ish expression is rooted in (G, G.f, G[i], *G, pkg.G ...).
func rootIdent(info *types.Info, e ast.Expr) *ast.Ident {
	for {
		switch x := e.(type) {
		case *ast.Ident:
			return x
		case *ast.SelectorExpr:
			if id, ok := x.X.(*ast.Ident); ok {
				if _, isPkg := info.Uses[id].(*types.PkgName); isPkg {
					return x.Sel
				}
			}
			e = x.X
		case *ast.IndexExpr:
			e = x.X
		case *ast.StarExpr:
			e = x.X
		case *ast.ParenExpr:
			e = x.X
		case *ast.SliceExpr:
			e = x.X
		default:
			return nil
		}
	}
}

var safeTypes = map[string]bool{"*regexp.Regexp": true, "*strings.Replacer": true, "sync.Once": true, "sync.Mutex": true, "sync.RWMutex": true, "sync.Pool": true, "sync.Map": true}

func classify(pkgs []*packages.Package) map[*types.Var]bool {
	mutable := map[*types.Var]bool{}
	// write-through summaries: function object -> set of parameter indexes (receiver = -1) written through
	type fkey = *types.Func
	writes := map[fkey]map[int]bool{}
	type callEdge struct {
		caller fkey
		callee fkey
		argMap map[int]int // callee param idx -> caller param idx
	}
	var edges []callEdge
	mark := func(p *packages.Package, id *ast.Ident, why string, pos token.Pos) {
		v := pkgVar(p.TypesInfo, id)
		if v == nil {
			return
		}
		if safeTypes[v.Type().String()] {
			return
		}
		mutable[v] = true
		key := v.Pkg().Path() + "." + v.Name()
		if len(rep.MutableGlobals[key]) < 4 {
			rep.MutableGlobals[key] = append(rep.MutableGlobals[key], why+"@"+p.Fset.Position(pos).String())
		}
	}
	for _, p := range pkgs {
		info := p.TypesInfo
		for _, o := range info.Defs {
			if v, ok := o.(*types.Var); ok && v.Pkg() != nil && v.Parent() == v.Pkg().Scope() {
				rep.PackageVars++
			}
		}
		for _, f := range p.Syntax {
			if strings.HasSuffix(p.Fset.File(f.Pos()).Name(), "_test.go") {
				continue
			}
			for _, d := range f.Decls {
				fd, ok := d.(*ast.FuncDecl)
				if !ok || fd.Body == nil || (fd.Name.Name == "init" && fd.Recv == nil) {
					continue
				}
				fobj, _ := info.Defs[fd.Name].(*types.Func)
				// parameter objects -> index
				paramIdx := map[types.Object]int{}
				if fd.Recv != nil && len(fd.Recv.List) > 0 {
					for _, n := range fd.Recv.List[0].Names {
						paramIdx[info.Defs[n]] = -1
					}
				}
				i := 0
				for _, fl := range fd.Type.Params.List {
					if len(fl.Names) == 0 {
						i++
					}
					for _, n := range fl.Names {
						paramIdx[info.Defs[n]] = i
						i++
					}
				}
				noteParamWrite := func(e ast.Expr) {
					if fobj == nil {
						return
					}
					id := rootIdent(info, e)
					if id == nil {
						return
					}
					if _, isIdent := e.(*ast.Ident); isIdent {
						return // assigning the parameter variable itself is local
					}
					if idx, ok := paramIdx[info.Uses[id]]; ok {
						if writes[fobj] == nil {
							writes[fobj] = map[int]bool{}
						}
						writes[fobj][idx] = true
					}
				}
				ast.Inspect(fd.Body, func(n ast.Node) bool {
					switch x := n.(type) {
					case *ast.AssignStmt:
						if x.Tok != token.DEFINE {
							for _, l := range x.Lhs {
								mark(p, rootIdent(info, l), "assign", x.Pos())
								noteParamWrite(l)
							}
						}
					case *ast.IncDecStmt:
						mark(p, rootIdent(info, x.X), "incdec", x.Pos())
						noteParamWrite(x.X)
					case *ast.RangeStmt:
						if x.Tok == token.ASSIGN {
							if x.Key != nil {
								mark(p, rootIdent(info, x.Key), "range", x.Pos())
							}
							if x.Value != nil {
								mark(p, rootIdent(info, x.Value), "range", x.Pos())
							}
						}
					case *ast.UnaryExpr:
						if x.Op == token.AND {
							mark(p, rootIdent(info, x.X), "addr", x.Pos())
						}
					case *ast.CallExpr:
						if id, ok := x.Fun.(*ast.Ident); ok {
							if _, b := info.Uses[id].(*types.Builtin); b && (id.Name == "delete" || id.Name == "copy" || id.Name == "clear") && len(x.Args) > 0 {
								mark(p, rootIdent(info, x.Args[0]), id.Name, x.Pos())
								noteParamWrite(&ast.IndexExpr{X: x.Args[0]})
							}
						}
						var callee *types.Func
						var recvExpr ast.Expr
						switch fun := x.Fun.(type) {
						case *ast.Ident:
							callee, _ = info.Uses[fun].(*types.Func)
						case *ast.SelectorExpr:
							if s := info.Selections[fun]; s != nil && s.Kind() == types.MethodVal {
								callee, _ = s.Obj().(*types.Func)
								recvExpr = fun.X
								// implicit address-of: pointer-receiver method on an addressable non-pointer value
								if callee != nil {
									sig := callee.Type().(*types.Signature)
									if _, ptr := sig.Recv().Type().(*types.Pointer); ptr {
										if t := info.TypeOf(fun.X); t != nil {
											if _, isPtr := t.Underlying().(*types.Pointer); !isPtr {
												mark(p, rootIdent(info, fun.X), "ptr-method "+callee.Name(), x.Pos())
											}
										}
										// pointer-receiver method defined outside the module on a global: assume it writes
										if callee.Pkg() != nil && !strings.HasPrefix(callee.Pkg().Path(), "github.com/tsawler/tabula") && !safeTypes[sig.Recv().Type().String()] {
											mark(p, rootIdent(info, fun.X), "extern-ptr-method "+callee.Name(), x.Pos())
										}
									}
								}
							} else {
								callee, _ = info.Uses[fun.Sel].(*types.Func)
							}
						}
						// rule (vi): a reference-typed view of a global (G[:], G[a:b], or G itself when it is a
						// slice, map or pointer) handed to a function outside the module may be written
						// through there (io.ReadFull(r, G[:]), copy-like helpers, sort.Strings(G) ...)
						if callee == nil || callee.Pkg() == nil || !strings.HasPrefix(callee.Pkg().Path(), "github.com/tsawler/tabula") {
							for _, a := range x.Args {
								_, sliced := a.(*ast.SliceExpr)
								refTyped := false
								if t := info.TypeOf(a); t != nil {
									switch t.Underlying().(type) {
									case *types.Slice, *types.Map, *types.Pointer:
										refTyped = true
									}
								}
								if sliced || refTyped {
									if id := rootIdent(info, a); id != nil {
										if v := pkgVar(info, id); v != nil && !safeTypes[v.Type().String()] {
											if _, isBuiltin := x.Fun.(*ast.Ident); !isBuiltin || callee != nil {
												mark(p, id, "extern-arg", x.Pos())
											}
										}
									}
								}
							}
						}
						if callee != nil && fobj != nil {
							am := map[int]int{}
							if recvExpr != nil {
								if id := rootIdent(info, recvExpr); id != nil {
									if idx, ok := paramIdx[info.Uses[id]]; ok {
										am[-1] = idx
									}
								}
							}
							for ai, a := range x.Args {
								if id := rootIdent(info, a); id != nil {
									if idx, ok := paramIdx[info.Uses[id]]; ok {
										am[ai] = idx
									}
								}
							}
							edges = append(edges, callEdge{fobj, callee, am})
						}
					}
					return true
				})
			}
		}
	}
	// fixpoint: a function writes through param i if it passes it on to a position the callee writes through
	for changed := true; changed; {
		changed = false
		for _, e := range edges {
			for cp, callerP := range e.argMap {
				if writes[e.callee][cp] && !writes[e.caller][callerP] {
					if writes[e.caller] == nil {
						writes[e.caller] = map[int]bool{}
					}
					writes[e.caller][callerP] = true
					changed = true
				}
			}
		}
	}
	// rule (iv): a global (or something reached from it) passed at a written-through position
	for _, p := range pkgs {
		info := p.TypesInfo
		for _, f := range p.Syntax {
			if strings.HasSuffix(p.Fset.File(f.Pos()).Name(), "_test.go") {
				continue
			}
			for _, d := range f.Decls {
				fd, ok := d.(*ast.FuncDecl)
				if !ok || fd.Body == nil || (fd.Name.Name == "init" && fd.Recv == nil) {
					continue
				}
				ast.Inspect(fd.Body, func(n ast.Node) bool {
					x, ok := n.(*ast.CallExpr)
					if !ok {
						return true
					}
					var callee *types.Func
					var recvExpr ast.Expr
					switch fun := x.Fun.(type) {
					case *ast.Ident:
						callee, _ = info.Uses[fun].(*types.Func)
					case *ast.SelectorExpr:
						if s := info.Selections[fun]; s != nil && s.Kind() == types.MethodVal {
							callee, _ = s.Obj().(*types.Func)
							recvExpr = fun.X
						} else {
							callee, _ = info.Uses[fun.Sel].(*types.Func)
						}
					}
					if callee == nil || writes[callee] == nil {
						return true
					}
					if recvExpr != nil && writes[callee][-1] {
						mark(p, rootIdent(info, recvExpr), "write-through recv "+callee.Name(), x.Pos())
					}
					for ai, a := range x.Args {
						if writes[callee][ai] {
							mark(p, rootIdent(info, a), "write-through arg "+callee.Name(), x.Pos())
						}
					}
					return true
				})
			}
		}
	}
	return mutable
}

// ---------------------------------------------------------------------------------------------

type pkgInstr struct {
	p          *packages.Package
	mutable    map[*types.Var]bool
	tickNames  []string
	yieldNames []string
	mapNames   []string
	curFunc    string
	aliases    map[types.Object]bool // locals of the current function that alias a mutable global
}

func (pi *pkgInstr) pos(n ast.Node) string {
	ps := pi.p.Fset.Position(n.Pos())
	return fmt.Sprintf("%s:%d", strings.TrimPrefix(ps.Filename, *repo+"/"), ps.Line)
}

func (pi *pkgInstr) tickSite(n ast.Node, what string) ast.Expr {
	pi.tickNames = append(pi.tickNames, pi.curFunc+"@"+pi.pos(n)+what)
	return &ast.BinaryExpr{X: ast.NewIdent("verifTickBase"), Op: token.ADD, Y: lit(int64(len(pi.tickNames) - 1))}
}

func hasCall(e ast.Expr) bool {
	found := false
	ast.Inspect(e, func(n ast.Node) bool {
		if _, ok := n.(*ast.CallExpr); ok {
			found = true
		}
		return true
	})
	return found
}

func funcName(fd *ast.FuncDecl) string {
	if fd.Recv != nil && len(fd.Recv.List) > 0 {
		t := fd.Recv.List[0].Type
		if s, ok := t.(*ast.StarExpr); ok {
			t = s.X
		}
		if ix, ok := t.(*ast.IndexExpr); ok {
			t = ix.X
		}
		if id, ok := t.(*ast.Ident); ok {
			return id.Name + "." + fd.Name.Name
		}
	}
	return fd.Name.Name
}

func (pi *pkgInstr) instrument(f *ast.File) bool {
	changed := false
	info := pi.p.TypesInfo
	pkgShort := pi.p.PkgPath[strings.LastIndex(pi.p.PkgPath, "/")+1:]

	// recursive functions (syntactic call-graph cycles within the package are approximated by:
	// every function gets Enter/Leave — cheap, and exact for depth attribution)
	if *doMap || *doBudgets {
		astutil.Apply(f, func(c *astutil.Cursor) bool {
			if fd, ok := c.Node().(*ast.FuncDecl); ok {
				pi.curFunc = pkgShort + "." + funcName(fd)
			}
			return true
		}, func(c *astutil.Cursor) bool {
			switch n := c.Node().(type) {
			case *ast.CallExpr:
				if !*doBudgets {
					return true
				}
				if id, ok := n.Fun.(*ast.Ident); ok && id.Name == "make" && len(n.Args) >= 2 {
					if _, isBuiltin := info.Uses[id].(*types.Builtin); isBuiltin {
						t := info.TypeOf(n.Args[0])
						var elem int64 = 16
						if t != nil {
							if s, ok := t.Underlying().(*types.Slice); ok {
								elem = pi.p.TypesSizes.Sizeof(s.Elem())
								if elem == 0 {
									elem = 1
								}
							}
						}
						for i := 1; i < len(n.Args); i++ {
							if tv, ok := info.Types[n.Args[i]]; ok && tv.Value != nil {
								continue
							}
							n.Args[i] = call("Len", n.Args[i], lit(elem), pi.tickSite(n, ":make"))
							rep.AllocGuards++
							changed = true
						}
					}
				}
				if sel, ok := n.Fun.(*ast.SelectorExpr); ok && sel.Sel.Name == "Repeat" && len(n.Args) == 2 {
					if id, ok := sel.X.(*ast.Ident); ok {
						if pn, ok := info.Uses[id].(*types.PkgName); ok && (pn.Imported().Path() == "strings" || pn.Imported().Path() == "bytes") {
							if tv, ok := info.Types[n.Args[1]]; !ok || tv.Value == nil {
								n.Args[1] = call("Len", n.Args[1], lit(1), pi.tickSite(n, ":repeat"))
								rep.AllocGuards++
								changed = true
							}
						}
					}
				}
			case *ast.RangeStmt:
				if !*doMap {
					return true
				}
				t := info.TypeOf(n.X)
				if t == nil {
					return true
				}
				mt, ok := t.Underlying().(*types.Map)
				if !ok {
					return true
				}
				if _, basic := mt.Key().Underlying().(*types.Basic); !basic {
					rep.MapSkipped = append(rep.MapSkipped, pi.pos(n)+" (non-basic key)")
					return true
				}
				if hasCall(n.X) {
					rep.MapSkipped = append(rep.MapSkipped, pi.pos(n)+" (range over call result)")
					return true
				}
				if n.Key == nil && n.Value == nil {
					return true // order-insensitive by construction only if body is; keep native (counts only)
				}
				pi.mapNames = append(pi.mapNames, pi.curFunc+"@"+pi.pos(n))
				site := len(pi.mapNames) - 1
				changed = true
				kv := ast.NewIdent(fmt.Sprintf("verifK%d", site))
				vv := ast.NewIdent(fmt.Sprintf("verifV%d", site))
				okv := ast.NewIdent(fmt.Sprintf("verifOK%d", site))
				var pre []ast.Stmt
				pre = append(pre, &ast.AssignStmt{Lhs: []ast.Expr{vv, okv}, Tok: token.DEFINE, Rhs: []ast.Expr{&ast.IndexExpr{X: n.X, Index: kv}}})
				pre = append(pre, &ast.IfStmt{Cond: &ast.UnaryExpr{Op: token.NOT, X: okv}, Body: &ast.BlockStmt{List: []ast.Stmt{&ast.BranchStmt{Tok: token.CONTINUE}}}})
				pre = append(pre, &ast.AssignStmt{Lhs: []ast.Expr{ast.NewIdent("_")}, Tok: token.ASSIGN, Rhs: []ast.Expr{vv}})
				isBlank := func(e ast.Expr) bool {
					if e == nil {
						return true
					}
					id, ok := e.(*ast.Ident)
					return ok && id.Name == "_"
				}
				var lhs, rhs []ast.Expr
				if !isBlank(n.Key) {
					lhs, rhs = append(lhs, n.Key), append(rhs, kv)
				}
				if !isBlank(n.Value) {
					lhs, rhs = append(lhs, n.Value), append(rhs, vv)
				}
				if len(lhs) > 0 {
					pre = append(pre, &ast.AssignStmt{Lhs: lhs, Tok: n.Tok, Rhs: rhs})
					if n.Tok == token.DEFINE {
						for _, l := range lhs {
							pre = append(pre, &ast.AssignStmt{Lhs: []ast.Expr{ast.NewIdent("_")}, Tok: token.ASSIGN, Rhs: []ast.Expr{l}})
						}
					}
				}
				n.Body.List = append(pre, n.Body.List...)
				n.Key, n.Value, n.Tok = ast.NewIdent("_"), kv, token.DEFINE
				n.X = call("Keys", n.X, &ast.BinaryExpr{X: ast.NewIdent("verifMapBase"), Op: token.ADD, Y: lit(int64(site))})
			}
			return true
		})
	}

	if *doYield && len(pi.mutable) > 0 {
		for _, d := range f.Decls {
			fd, ok := d.(*ast.FuncDecl)
			if !ok || fd.Body == nil || (fd.Name.Name == "init" && fd.Recv == nil) {
				continue
			}
			pi.curFunc = pkgShort + "." + funcName(fd)
			pi.aliases = pi.findAliases(fd.Body)
			if pi.yieldBlock(fd.Body) {
				changed = true
			}
		}
	}

	if *doBudgets {
		for _, d := range f.Decls {
			fd, ok := d.(*ast.FuncDecl)
			if !ok || fd.Body == nil {
				continue
			}
			pi.curFunc = pkgShort + "." + funcName(fd)
			if fd.Name.Name == "init" && fd.Recv == nil {
				continue
			}
			site := pi.tickSite(fd, "")
			ast.Inspect(fd.Body, func(n ast.Node) bool {
				switch x := n.(type) {
				case *ast.ForStmt:
					x.Body.List = append([]ast.Stmt{&ast.ExprStmt{X: call("Tick", pi.tickSite(x, ":loop"))}}, x.Body.List...)
					rep.Loops++
				case *ast.RangeStmt:
					x.Body.List = append([]ast.Stmt{&ast.ExprStmt{X: call("Tick", pi.tickSite(x, ":loop"))}}, x.Body.List...)
					rep.Loops++
				}
				return true
			})
			fd.Body.List = append([]ast.Stmt{
				&ast.ExprStmt{X: call("Tick", site)},
				&ast.DeferStmt{Call: call("Leave", call("Enter", site))},
			}, fd.Body.List...)
			rep.Funcs++
			changed = true
		}
	}
	return changed
}

// touches reports whether the "header" of a statement (everything except nested statement
// blocks and function literals) references a mutable package-level variable.
func (pi *pkgInstr) touches(n ast.Node) bool {
	found := false
	ast.Inspect(n, func(x ast.Node) bool {
		if found {
			return false
		}
		switch y := x.(type) {
		case *ast.BlockStmt:
			if x != n {
				return false
			}
		case *ast.FuncLit:
			return false
		case *ast.CaseClause, *ast.CommClause:
			// the clause expressions belong to the switch header; bodies are blocks of their own
			if cc, ok := y.(*ast.CaseClause); ok {
				for _, e := range cc.List {
					if pi.touches(e) {
						found = true
					}
				}
			}
			return false
		case *ast.Ident:
			if v := pkgVar(pi.p.TypesInfo, y); v != nil && pi.mutable[v] {
				found = true
			}
			if o := pi.p.TypesInfo.Uses[y]; o != nil && pi.aliases[o] {
				found = true
			}
		}
		return true
	})
	return found
}

// findAliases collects the local variables of a function body that are assigned the address of a
// mutable package-level variable (x := &G, x := &G.f) or a reference-typed view of it (x := G where G
// is a pointer, map, slice or channel), transitively (y := x). Uses of such locals are yield points too.
func (pi *pkgInstr) findAliases(body *ast.BlockStmt) map[types.Object]bool {
	info := pi.p.TypesInfo
	al := map[types.Object]bool{}
	refType := func(e ast.Expr) bool {
		t := info.TypeOf(e)
		if t == nil {
			return false
		}
		switch t.Underlying().(type) {
		case *types.Pointer, *types.Map, *types.Slice, *types.Chan:
			return true
		}
		return false
	}
	rooted := func(e ast.Expr) bool {
		addr := false
		if u, ok := e.(*ast.UnaryExpr); ok && u.Op == token.AND {
			addr = true
			e = u.X
		}
		id := rootIdent(info, e)
		if id == nil {
			return false
		}
		isG := false
		if v := pkgVar(info, id); v != nil && pi.mutable[v] {
			isG = true
		}
		if o := info.Uses[id]; o != nil && al[o] {
			isG = true
		}
		return isG && (addr || refType(e))
	}
	for changed := true; changed; {
		changed = false
		ast.Inspect(body, func(n ast.Node) bool {
			as, ok := n.(*ast.AssignStmt)
			if !ok || len(as.Lhs) != len(as.Rhs) {
				return true
			}
			for i, r := range as.Rhs {
				if !rooted(r) {
					continue
				}
				if id, ok := as.Lhs[i].(*ast.Ident); ok && id.Name != "_" {
					o := info.Defs[id]
					if o == nil {
						o = info.Uses[id]
					}
					if o != nil && !al[o] {
						if v, isVar := o.(*types.Var); isVar && v.Pkg() != nil && v.Parent() != v.Pkg().Scope() {
							al[o] = true
							changed = true
						}
					}
				}
			}
			return true
		})
	}
	return al
}

func (pi *pkgInstr) yieldStmt(n ast.Node) ast.Stmt {
	pi.yieldNames = append(pi.yieldNames, pi.curFunc+"@"+pi.pos(n))
	return &ast.ExprStmt{X: call("Yield", &ast.BinaryExpr{X: ast.NewIdent("verifYieldBase"), Op: token.ADD, Y: lit(int64(len(pi.yieldNames) - 1))})}
}

func (pi *pkgInstr) yieldList(list []ast.Stmt) ([]ast.Stmt, bool) {
	changed := false
	var outl []ast.Stmt
	for _, s := range list {
		// recurse into nested blocks first
		switch x := s.(type) {
		case *ast.BlockStmt:
			if pi.yieldBlock(x) {
				changed = true
			}
		case *ast.IfStmt:
			if pi.yieldIf(x) {
				changed = true
			}
		case *ast.ForStmt:
			if pi.yieldBlock(x.Body) {
				changed = true
			}
			if (x.Cond != nil && pi.touches(x.Cond)) || (x.Post != nil && pi.touches(x.Post)) {
				x.Body.List = append([]ast.Stmt{pi.yieldStmt(x)}, x.Body.List...)
				changed = true
			}
		case *ast.RangeStmt:
			if pi.yieldBlock(x.Body) {
				changed = true
			}
		case *ast.SwitchStmt:
			for _, c := range x.Body.List {
				cc := c.(*ast.CaseClause)
				var ch bool
				cc.Body, ch = pi.yieldList(cc.Body)
				changed = changed || ch
			}
		case *ast.TypeSwitchStmt:
			for _, c := range x.Body.List {
				cc := c.(*ast.CaseClause)
				var ch bool
				cc.Body, ch = pi.yieldList(cc.Body)
				changed = changed || ch
			}
		case *ast.SelectStmt:
			for _, c := range x.Body.List {
				cc := c.(*ast.CommClause)
				var ch bool
				cc.Body, ch = pi.yieldList(cc.Body)
				changed = changed || ch
			}
		case *ast.LabeledStmt:
			inner, ch := pi.yieldList([]ast.Stmt{x.Stmt})
			if ch && len(inner) == 1 {
				x.Stmt = inner[0]
				changed = true
			}
		}
		if _, isLabeled := s.(*ast.LabeledStmt); !isLabeled && pi.headerTouches(s) {
			outl = append(outl, pi.yieldStmt(s))
			changed = true
		}
		outl = append(outl, s)
	}
	return outl, changed
}

// headerTouches: the statement's own expressions (not its nested blocks) touch a mutable global.
func (pi *pkgInstr) headerTouches(s ast.Stmt) bool {
	switch x := s.(type) {
	case *ast.BlockStmt:
		return false
	case *ast.IfStmt:
		for cur := x; cur != nil; {
			if (cur.Init != nil && pi.touches(cur.Init)) || pi.touches(cur.Cond) {
				return true
			}
			next, _ := cur.Else.(*ast.IfStmt)
			cur = next
		}
		return false
	case *ast.ForStmt:
		return (x.Init != nil && pi.touches(x.Init)) || (x.Cond != nil && pi.touches(x.Cond))
	case *ast.RangeStmt:
		return pi.touches(x.X) || (x.Key != nil && pi.touches(x.Key)) || (x.Value != nil && pi.touches(x.Value))
	case *ast.SwitchStmt:
		if (x.Init != nil && pi.touches(x.Init)) || (x.Tag != nil && pi.touches(x.Tag)) {
			return true
		}
		for _, c := range x.Body.List {
			for _, e := range c.(*ast.CaseClause).List {
				if pi.touches(e) {
					return true
				}
			}
		}
		return false
	case *ast.TypeSwitchStmt:
		return (x.Init != nil && pi.touches(x.Init)) || pi.touches(x.Assign)
	case *ast.SelectStmt:
		return false
	case *ast.DeclStmt, *ast.EmptyStmt:
		return pi.touches(s)
	}
	return pi.touches(s)
}

func (pi *pkgInstr) yieldBlock(b *ast.BlockStmt) bool {
	if b == nil {
		return false
	}
	var ch bool
	b.List, ch = pi.yieldList(b.List)
	return ch
}

func (pi *pkgInstr) yieldIf(x *ast.IfStmt) bool {
	changed := pi.yieldBlock(x.Body)
	switch e := x.Else.(type) {
	case *ast.BlockStmt:
		if pi.yieldBlock(e) {
			changed = true
		}
	case *ast.IfStmt:
		if pi.yieldIf(e) {
			changed = true
		}
	}
	return changed
}
