#!/bin/bash
# ./run.sh <Cnn> quick|thorough            run the check for one property against /repo's working tree
# ./run.sh <Cnn> replay <file>             re-execute one recorded case
# Rebuilds the check binary (and therefore tabula, through the module replace => /repo) on every call.
# VERIF_REPO=<dir> (development only): build against another checkout of tabula (scratch worktree with a
# seeded change or a candidate fix) instead of /repo. Registered commands never set it.
set -u
cd "$(dirname "$0")"
export GOFLAGS=-mod=mod GOPROXY=off GOSUMDB=off GOTOOLCHAIN=local CGO_ENABLED=0
id="$1"; shift
lc=$(echo "$id" | tr 'A-Z' 'a-z')
mkdir -p .build/bin evidence
bin=".build/bin/$lc"
modflag=""
if [ -n "${VERIF_REPO:-}" ]; then
  tag=$(echo "$VERIF_REPO" | md5sum | cut -c1-8)
  sed "s#=> /repo#=> $VERIF_REPO#" go.mod > ".build/alt-$tag.mod"; cp go.sum ".build/alt-$tag.sum"
  modflag="-modfile=$PWD/.build/alt-$tag.mod"; bin=".build/bin/$lc-$tag"
  export VERIF_MODFLAG="$modflag"
fi
if [ -x "checks/$lc/build.sh" ]; then
  # checks that need an instrumented (overlay) build of tabula bring their own build step
  "checks/$lc/build.sh" "$bin" > ".build/$lc.build.log" 2>&1 || { echo "HARNESS-ERROR $id: build failed (see below)"; tail -40 ".build/$lc.build.log"; exit 2; }
else
  go build $modflag -o "$bin" "./checks/$lc" > ".build/$lc.build.log" 2>&1 || { echo "HARNESS-ERROR $id: build failed (see below)"; tail -40 ".build/$lc.build.log"; exit 2; }
fi
exec "$bin" "$@"
