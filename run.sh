#!/bin/bash
# ./run.sh <Cnn> quick|thorough            run the check for one property against /repo's working tree
# ./run.sh <Cnn> replay <file>             re-execute one recorded case
# Rebuilds the check binary (and therefore tabula, through the module replace => /repo) on every call.
set -u
cd "$(dirname "$0")"
export GOFLAGS=-mod=mod GOPROXY=off GOSUMDB=off GOTOOLCHAIN=local CGO_ENABLED=0
id="$1"; shift
lc=$(echo "$id" | tr 'A-Z' 'a-z')
mkdir -p .build/bin evidence
if [ -x "checks/$lc/build.sh" ]; then
  # checks that need an instrumented (overlay) build of tabula bring their own build step
  "checks/$lc/build.sh" ".build/bin/$lc" > ".build/$lc.build.log" 2>&1 || { echo "HARNESS-ERROR $id: build failed (see below)"; tail -40 ".build/$lc.build.log"; exit 2; }
else
  go build -o ".build/bin/$lc" "./checks/$lc" > ".build/$lc.build.log" 2>&1 || { echo "HARNESS-ERROR $id: build failed (see below)"; tail -40 ".build/$lc.build.log"; exit 2; }
fi
exec ".build/bin/$lc" "$@"
