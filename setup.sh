#!/bin/bash
# Run once after a fresh restore (offline): resolves the module graph from the local module cache and
# pre-builds every check binary so that the first quick run does not pay the cold-cache compile.
set -u
cd "$(dirname "$0")"
export GOFLAGS=-mod=mod GOPROXY=off GOSUMDB=off GOTOOLCHAIN=local CGO_ENABLED=0
mkdir -p .build/bin evidence
go mod tidy >/dev/null 2>&1 || true
rc=0
for lc in $(python3 -c "import json;print(' '.join(k.lower() for k in json.load(open('tools/checks.json'))))"); do
  d="checks/$lc/"
  if [ -x "$d/build.sh" ]; then "$d/build.sh" ".build/bin/$lc" >".build/$lc.build.log" 2>&1 || { echo "setup: build of $lc failed"; tail -20 ".build/$lc.build.log"; rc=1; }
  else go build -o ".build/bin/$lc" "./$d" >".build/$lc.build.log" 2>&1 || { echo "setup: build of $lc failed"; tail -20 ".build/$lc.build.log"; rc=1; }
  fi
done
exit $rc
