#!/bin/bash
# tools/seeded_sweep.sh [ID ...] — the procedure the brief prescribes, for every kept seeded change: apply the patch to /repo
# itself (git -C /repo apply), run the property's quick check from /verif, undo it straight afterwards
# (git -C /repo checkout -- .). Nothing is committed in /repo. VERIF_DEV=1 keeps evidence/ and summary/ untouched.
# Writes seeded/SWEEP.md. Only run while nothing else builds against /repo.
set -u
cd /verif
trap 'git -C /repo checkout -- . 2>/dev/null' EXIT
[ -z "$(git -C /repo status --porcelain)" ] || { echo "/repo is not clean"; exit 2; }
out=${SWEEP_OUT:-seeded/SWEEP.md}
{
echo "# Seeded changes applied to /repo itself (git apply / quick check / git checkout -- .)"
echo
echo "tabula HEAD $(git -C /repo log --oneline | head -1); run $(date -u +%FT%TZ). 'other check' = the change is outside the subject of the property it was seeded for and is caught by the named check instead (see note.txt)."
echo
echo "| seeded change | patch applies to HEAD | check | exit | signatures |"
echo "|---|---|---|---|---|"
} > $out
for d in $(ls -d seeded/C*-* | sort -t- -k1,1 -k2,2n); do
  name=$(basename $d); id=${name%%-*}
  if [ $# -gt 0 ]; then case " $* " in *" $id "*|*" $name "*) ;; *) continue;; esac; fi
  chk=$id
  case $name in C03-6) chk=C10;; C10-4|C10-8) chk=C11;; esac
  if ! git -C /repo apply --check $PWD/$d/patch.diff 2>/dev/null; then
    echo "| $name | no (a later fix: commit rewrote the lines; detected at confirmation time, see confirm.txt) | $chk | - | - |" >> $out; continue
  fi
  git -C /repo apply $PWD/$d/patch.diff
  res=$(VERIF_DEV=1 ./run.sh $chk quick 2>&1); rc=$?
  git -C /repo checkout -- .
  sigs=$(echo "$res" | grep -oE "signature: .*" | sort | uniq -c | sort -rn | head -3 | awk '{$1="";print}' | sed 's/signature: //' | tr '\n' ';' | sed 's/|/\//g')
  echo "| $name | yes | $chk | $rc | $sigs |" >> $out
  echo "$name $chk rc=$rc"
done
echo >> $out
echo "exit 1 = VIOLATION reported (detected); exit 0 = missed; exit 2 = harness error." >> $out
