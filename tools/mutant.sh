#!/bin/bash
# tools/mutant.sh <CNN> <patch.diff> [quick|thorough]  — apply a seeded change in a scratch worktree, run the repo's own
# suite there, then run the check against it. Prints: SUITE=pass|fail CHECK=detected|missed (exit code of check).
set -u
id="$1"; patch="$(realpath "$2")"; tier="${3:-quick}"
export GOFLAGS=-mod=mod GOPROXY=off GOSUMDB=off GOTOOLCHAIN=local CGO_ENABLED=0
wt="/tmp/mut-$id-$$"
for try in 1 2 3 4 5; do git -C /repo worktree add -q --detach "$wt" HEAD 2>/dev/null && break; sleep $((RANDOM % 5 + 1)); done; [ -d "$wt" ] || { echo "cannot create worktree"; exit 2; }
trap 'git -C /repo worktree remove --force "$wt" >/dev/null 2>&1; rm -f /verif/.build/bin/*-$(echo "$wt" | md5sum | cut -c1-8)' EXIT
if ! git -C "$wt" apply "$patch"; then echo "PATCH-DOES-NOT-APPLY $patch"; exit 2; fi
if (cd "$wt" && go build ./... 2>&1 | tail -5 | grep -q .); then echo "MUTANT-DOES-NOT-COMPILE"; (cd "$wt" && go build ./... 2>&1 | tail -5); exit 2; fi
suite=pass
(cd "$wt" && go test -vet=off -count=1 ./... 2>&1 | grep -E "^(FAIL|---)" | head -5) > "/tmp/mut-$$.log"
if [ -s "/tmp/mut-$$.log" ]; then suite=fail; fi
out=$(cd /verif && VERIF_REPO="$wt" ./run.sh "$id" "$tier" 2>&1); rc=$?
res=missed; [ $rc -eq 1 ] && res=detected; [ $rc -ge 2 ] && res="harness-error($rc)"
echo "MUTANT $(basename "$patch") SUITE=$suite CHECK=$res"
echo "$out" | grep -E "signature:" | sort | uniq -c | sort -rn | head -4
[ "$suite" = fail ] && cat "/tmp/mut-$$.log"
rm -f "/tmp/mut-$$.log"
