#!/usr/bin/env python3
"""Writes /verif/seeded/RESULTS.md from seeded/<ID>-<n>/{meta.json,confirm.txt} (+ optional note.txt)."""
import json, glob, os, re
rows=[]
for d in sorted(glob.glob('/verif/seeded/C*-*'), key=lambda p:(p.split('/')[-1].split('-')[0], int(p.split('-')[-1]))):
    name=os.path.basename(d)
    try: m=json.load(open(d+'/meta.json'))
    except Exception: continue
    conf=open(d+'/confirm.txt').read() if os.path.exists(d+'/confirm.txt') else ''
    suite='pass' if 'repo suite with change: pass' in conf else '?'
    det=[]
    for t in ('quick','thorough'):
        mm=re.search(r'check (\S+) %s against the change: exit (\d+)'%t, conf)
        if mm: det.append(f"{t}: {'detected' if mm.group(2)=='1' else 'missed'}")
    note=open(d+'/note.txt').read().strip() if os.path.exists(d+'/note.txt') else ''
    rows.append((name, m.get('site','').replace('|','/'), m.get('summary','').replace('|','/').replace('\n',' ')[:260], m.get('manifests_when','').replace('|','/').replace('\n',' ')[:260], suite, '; '.join(det), note))
with open('/verif/seeded/RESULTS.md','w') as f:
    f.write("# Independently seeded property-breaking changes\n\nEach change was written by a fresh sub-agent that saw only the text of one property and a scratch worktree of tsawler/tabula;\n`confirm.txt` in each directory is the coordinator's confirmation (suite passes with the change, demonstration fails with it and passes without it)\nand the first run of the property's check against it. `note.txt` (where present) records what was done when the check missed the change at first.\n\n| id | site | change | needs to manifest | repo suite | check at confirmation time | follow-up |\n|---|---|---|---|---|---|---|\n")
    for r in rows: f.write('| '+' | '.join(r)+' |\n')
print(len(rows),'rows')
