#!/bin/bash
# tools/seed_round2.sh <CNN>...  — prepare worktree + prompt for a second seeding round (suffix r2)
for i in "$@"; do
  git -C /repo worktree add -q --detach /tmp/seed-$i HEAD && mkdir -p /tmp/seed-$i-out
  python3 - "$i" <<'PY'
import json,sys
i=sys.argv[1]
t=open('/verif/tools/seed_prompt.txt').read()
taken=json.load(open('/verif/tools/seed_taken.json')).get(i,[])
for l in open('/verif/properties.jsonl'):
    p=json.loads(l)
    if p['id']==i:
        prop=f"{p['id']} — {p['title']}\n\nSTATEMENT: {p['statement']}\n\nQUANTIFIED OVER: {p['quantifier']['text']}\n"
        extra="\nALREADY TAKEN by earlier seeders (do NOT repeat these ideas or close variants of them; pick different sites and different mechanisms, ideally in files/functions not mentioned here):\n"+"\n".join(" - "+x for x in taken)+"\n"
        open(f"/tmp/seed-{i}-out/PROPERTY.txt",'w').write(prop)
        open(f"/tmp/seed-{i}-out/PROMPT.txt",'w').write(t.replace('__ID__',i).replace('__PROPERTY__',prop+extra))
PY
done
