#!/usr/bin/env python3
"""Extract the simple-font encoding tables and glyph lists of pdf.js 2.14.305 into
/verif/ref/pdfjs_encodings.json (the independent reference of check C07).

The check never reads pdf.js at run time: it embeds the JSON written here. Re-run this script
only to regenerate / audit the JSON:

    python3 tools/extract_pdfjs_tables.py            # write ref/pdfjs_encodings.json (+ .sha256)
    python3 tools/extract_pdfjs_tables.py --verify   # re-extract and compare with the committed file

What is extracted (regex over build/pdf.worker.js, no JavaScript is executed):
  * the 256-entry glyph-name arrays  StandardEncoding, MacRomanEncoding, WinAnsiEncoding,
    SymbolSetEncoding, ZapfDingbatsEncoding            ("" = code not defined by the encoding)
  * PDFStringTranslateTable (PDFDocEncoding; 0 = "same as the byte" in stringToPDFString)
  * getGlyphsUnicode / getDingbatsGlyphsUnicode          (glyph name -> code point)
Derived: for each of the 6 encodings a 256-entry list of code points (null = undefined).
The tolerances (NFC, PUA, documented duplicates ...) are NOT applied here; they live in the
check (checks/c07/encodings.go) where they are documented one by one.

Cross-check (printed, informative): Python's cp1252 and mac_roman codecs.
"""
import hashlib
import json
import os
import re
import sys

PDFJS = "/opt/veriftools/tlapm/lib/tlapm/backends/Isabelle/contrib/pdfjs-2.14.305/build/pdf.worker.js"
ROOT = os.path.dirname(os.path.dirname(os.path.abspath(__file__)))
OUT = os.path.join(ROOT, "ref", "pdfjs_encodings.json")

ENC_VARS = {
    "StandardEncoding": "StandardEncoding",
    "MacRomanEncoding": "MacRomanEncoding",
    "WinAnsiEncoding": "WinAnsiEncoding",
    "SymbolEncoding": "SymbolSetEncoding",
    "ZapfDingbatsEncoding": "ZapfDingbatsEncoding",
}


def name_array(src, var):
    m = re.search(r"^var %s = \[(.*?)\];$" % re.escape(var), src, re.M | re.S)
    if not m:
        raise SystemExit("array %s not found" % var)
    names = re.findall(r'"([^"]*)"', m.group(1))
    if len(names) != 256:
        raise SystemExit("%s: %d entries" % (var, len(names)))
    return names


def glyph_list(src, fn):
    m = re.search(r"const %s = .*?function \(\) \{\s*return \[(.*?)\];\s*\}\);" % re.escape(fn), src, re.S)
    if not m:
        raise SystemExit("glyph list %s not found" % fn)
    pairs = re.findall(r'"([^"]+)",\s*(0x[0-9A-Fa-f]+)', m.group(1))
    out = {}
    for k, v in pairs:
        out[k] = int(v, 16)
    return out


def extract():
    raw = open(PDFJS, "rb").read()
    src = raw.decode("utf-8")
    glyphs = glyph_list(src, "getGlyphsUnicode")
    ding = glyph_list(src, "getDingbatsGlyphsUnicode")
    if len(glyphs) < 4000 or len(ding) < 200:
        raise SystemExit("glyph lists too small: %d %d" % (len(glyphs), len(ding)))
    m = re.search(r"^var PDFStringTranslateTable = \[(.*?)\];$", src, re.M | re.S)
    pdfdoc_raw = [int(x, 16) if x.lower().startswith("0x") else int(x) for x in re.findall(r"0x[0-9a-fA-F]+|\d+", m.group(1))]
    if len(pdfdoc_raw) != 0xA1:
        raise SystemExit("PDFStringTranslateTable: %d entries" % len(pdfdoc_raw))

    doc = {
        "source": "pdf.js 2.14.305 build/pdf.worker.js",
        "source_sha256": hashlib.sha256(raw).hexdigest(),
        "generator": "tools/extract_pdfjs_tables.py",
        "encodings": {},
        "glyph_names": {},
        "pdfdoc_translate_table": pdfdoc_raw,
    }
    used = {}
    for enc, var in ENC_VARS.items():
        names = name_array(src, var)
        table = ding if enc == "ZapfDingbatsEncoding" else glyphs
        cps = []
        for n in names:
            if n == "":
                cps.append(None)
                continue
            if n not in table:
                raise SystemExit("%s: glyph %s not in glyph list" % (enc, n))
            cps.append(table[n])
            used[n] = table[n]
        doc["glyph_names"][enc] = names
        doc["encodings"][enc] = cps
    # PDFDocEncoding as implemented by stringToPDFString: table value, or the byte itself when the entry is 0
    doc["encodings"]["PDFDocEncoding"] = [(pdfdoc_raw[i] if i < len(pdfdoc_raw) and pdfdoc_raw[i] else i) for i in range(256)]
    doc["glyph_names"]["PDFDocEncoding"] = [""] * 256
    doc["glyphs_used"] = dict(sorted(used.items()))
    # a few glyph-list entries the check needs for the Symbol double mappings (symbol.txt vs glyphlist.txt)
    doc["glyphlist_size"] = {"getGlyphsUnicode": len(glyphs), "getDingbatsGlyphsUnicode": len(ding)}
    return doc


def crosscheck(doc):
    """Informative comparison with Python's codecs (differences are expected where the PDF
    encodings deliberately differ from the platform code pages)."""
    for enc, codec in (("WinAnsiEncoding", "cp1252"), ("MacRomanEncoding", "mac_roman")):
        diffs = []
        for c in range(0x20, 256):
            ref = doc["encodings"][enc][c]
            try:
                py = ord(bytes([c]).decode(codec))
            except UnicodeDecodeError:
                py = None
            if ref is None or py is None:
                continue
            if ref != py:
                diffs.append("%02X pdfjs=U+%04X(%s) python=U+%04X" % (c, ref, doc["glyph_names"][enc][c], py))
        print("%s vs python %s: %d differing defined cells%s" % (enc, codec, len(diffs), (": " + "; ".join(diffs)) if diffs else ""))


def canonical(doc):
    return (json.dumps(doc, indent=1, sort_keys=True, ensure_ascii=True) + "\n").encode()


def main():
    doc = extract()
    data = canonical(doc)
    if "--verify" in sys.argv:
        old = open(OUT, "rb").read()
        if old != data:
            raise SystemExit("MISMATCH: %s differs from a fresh extraction" % OUT)
        print("ok: %s matches a fresh extraction (sha256 %s)" % (OUT, hashlib.sha256(data).hexdigest()))
        crosscheck(doc)
        return
    os.makedirs(os.path.dirname(OUT), exist_ok=True)
    with open(OUT, "wb") as f:
        f.write(data)
    with open(OUT + ".sha256", "w") as f:
        f.write("%s  pdfjs_encodings.json\n" % hashlib.sha256(data).hexdigest())
    print("wrote %s (%d bytes, sha256 %s)" % (OUT, len(data), hashlib.sha256(data).hexdigest()))
    crosscheck(doc)


if __name__ == "__main__":
    main()
