#!/usr/bin/env python3
"""Regenerates /verif/MANIFEST.json from tools/checks.json (claimed checks) and tools/not_applicable.json."""
import json, os
root = os.path.dirname(os.path.dirname(os.path.abspath(__file__)))
checks = json.load(open(os.path.join(root, "tools/checks.json")))
na_path = os.path.join(root, "tools/not_applicable.json")
na = json.load(open(na_path)) if os.path.exists(na_path) else {}
ids = [json.loads(l)["id"] for l in open(os.path.join(root, "properties.jsonl"))]
man = {
 "version": 1,
 "setup_cmd": "./setup.sh",
 "hooks": {
  "guard": "verif",
  "enable": "no hook is committed to tsawler/tabula: checks that need instrumentation (C02 budgets, C03 yield points / map-order seam) regenerate an instrumented copy of /repo's current working tree and compile it with `go build -tags verif -overlay /verif/.build/<id>/overlay.json`; all other checks build /repo as it is through the module replace directive",
  "baseline_off_cmd": "cd /repo && GOFLAGS=-mod=mod go test -vet=off -count=1 -timeout 25m ./...",
  "source_commits": [],
  "add_only": True
 },
 "engines": [
  {"name": "harness", "path": "internal/harness", "serves_properties": sorted(checks), "kind_free_text": "stateless choice-point DFS explorer (deviation-bounded / full product), process-level sharding over 16 workers, known-findings matcher, replay + evidence writer"}
 ],
 "checks": [],
 "not_applicable": [],
 "notes": "All checks run the real tabula code from /repo's working tree; see DESIGN.md. Repairs of genuine defects are `fix:` commits in /repo listed in known_findings.jsonl."
}
for i in ids:
    if i in checks:
        c = checks[i]
        man["checks"].append({
         "property_id": i,
         "quick_cmd": f"./run.sh {i} quick",
         "thorough_cmd": f"./run.sh {i} thorough",
         "evidence_file": f"/verif/evidence/{i}.json",
         "replay_cmd_template": f"./run.sh {i} replay {{path}}",
         "engine": c.get("engine", "harness"),
         "level_claimed": {"category": c["category"], "text": c["text"], "design_ref": c.get("design_ref", "DESIGN.md section 2")},
         "level_note": c["note"],
         "technique": c["technique"],
        })
    else:
        man["not_applicable"].append({"property_id": i, "reason": na.get(i, "check not built yet in this round (planned: bounded exhaustive enumeration, see DESIGN.md section 2); not claimed until its check is green on the unchanged tree")})
json.dump(man, open(os.path.join(root, "MANIFEST.json"), "w"), indent=1)
print("claimed:", [c["property_id"] for c in man["checks"]])
