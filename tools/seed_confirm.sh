#!/bin/bash
# tools/seed_confirm.sh <CNN> <n> <pkgdir> <TestName> [check-tier ...]
# Confirms an independently seeded change (from /tmp/seed-<CNN>-out) in a fresh scratch worktree:
#   suite passes with the change; demo fails with it and passes without it;
# then runs the property's check against the changed tree (VERIF_REPO) and stores everything under
# /verif/seeded/<CNN>-<n>/ (patch.diff, demo/, meta.json + confirm.txt).
set -u
id="$1"; n="$2"; pkg="$3"; tname="$4"; shift 4; tiers="${*:-quick}"
export GOFLAGS=-mod=mod GOPROXY=off GOSUMDB=off GOTOOLCHAIN=local CGO_ENABLED=0
src="/tmp/seed-$id-out"; dst="/verif/seeded/$id-${SEED_DST:-$n}"; wt="/tmp/confirm-$id-$n-$$"
mkdir -p "$dst/demo"; cp "$src/patch$n.diff" "$dst/patch.diff"; cp -r "$src/demo$n/." "$dst/demo/"; cp "$src/meta$n.json" "$dst/meta.json"
for try in 1 2 3 4 5; do git -C /repo worktree add -q --detach "$wt" HEAD 2>/dev/null && break; sleep $((RANDOM % 5 + 1)); done; [ -d "$wt" ] || { echo "cannot create worktree"; exit 2; }
trap 'git -C /repo worktree remove --force "$wt" >/dev/null 2>&1' EXIT
log="$dst/confirm.txt"; : > "$log"
say() { echo "$*" | tee -a "$log"; }
say "confirmed against tabula HEAD $(git -C /repo log --oneline | head -1)"
# every *_test.go of the demonstration is copied (some demonstrations bring a helper file next to the test)
rundemo() { k=0; for f in "$dst"/demo/*_test.go; do k=$((k+1)); cp "$f" "$wt/$pkg/zz_seed_demo${k}_test.go"; done; (cd "$wt" && go test -vet=off -count=1 -run "$tname" "./$pkg/" >"/tmp/demo-$$.log" 2>&1); rc=$?; rm -f "$wt/$pkg"/zz_seed_demo*_test.go; return $rc; }
rundemo; say "demo without change: exit $? (expected 0)"
git -C "$wt" apply "$dst/patch.diff" || { say "PATCH DOES NOT APPLY"; exit 1; }
(cd "$wt" && go build ./... ) || { say "DOES NOT COMPILE"; exit 1; }
fails=$(cd "$wt" && go test -vet=off -count=1 ./... 2>&1 | grep -E "^(FAIL|--- FAIL)" | head -5)
if [ -z "$fails" ]; then say "repo suite with change: pass"; else say "repo suite with change: FAIL"; say "$fails"; fi
rundemo; say "demo with change: exit $? (expected non-zero)"; grep -E "^\s+.*(want|got|FAIL)" "/tmp/demo-$$.log" | head -4 | tee -a "$log"; rm -f "/tmp/demo-$$.log"
for t in $tiers; do
  out=$(cd /verif && VERIF_REPO="$wt" ./run.sh "$id" "$t" 2>&1); rc=$?
  say "check $id $t against the change: exit $rc ($( [ $rc -eq 1 ] && echo DETECTED || echo not-detected ))"
  echo "$out" | grep -E "signature:" | sort | uniq -c | sort -rn | head -4 | tee -a "$log"
  echo "$out" | grep -E "^$id $t:" | tee -a "$log"
  [ $rc -eq 1 ] && break
done
