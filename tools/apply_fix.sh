#!/bin/bash
# tools/apply_fix.sh <fix.diff> "<commit message starting with fix:>" — apply to /repo, run the full suite, commit.
set -u
export GOFLAGS=-mod=mod GOPROXY=off GOSUMDB=off GOTOOLCHAIN=local CGO_ENABLED=0
d="$(realpath "$1")"; msg="$2"
cd /repo || exit 2
git apply --3way "$d" 2>/dev/null || git apply "$d" || { echo "DOES NOT APPLY: $d"; exit 1; }
go build ./... || { echo "BUILD FAILED"; git checkout -- .; exit 1; }
out=$(go test -vet=off -count=1 ./... 2>&1 | grep -E "^(FAIL|--- FAIL|panic)" | head)
if [ -n "$out" ]; then echo "SUITE FAILS:"; echo "$out"; git checkout -- .; git reset -q; exit 1; fi
git add -A && git commit -qm "$msg" && echo "COMMITTED $(git log --oneline | head -1)"
