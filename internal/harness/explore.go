package harness

import (
	"fmt"
	"strings"
)

// Ctx is the choice-point context of one execution of an explored body.
// Choice 0 is the plain default at every point.
type Ctx struct {
	e       *Env
	prefix  []int
	choices []int
	arity   []int
	cost    []int
	labels  []string
	vals    []string
	devs    int
	bound   int // <0: full product
	counted bool
	space   string
	tags    []string
}

// Choose returns a choice in [0,n). label names the point; it becomes part of the descriptor.
func (c *Ctx) Choose(label string, n int) int { return c.ChooseW(label, n, 1) }

// ChooseW is Choose with an explicit deviation cost for non-default alternatives.
func (c *Ctx) ChooseW(label string, n int, w int) int {
	if n <= 0 {
		panic("harness: Choose with n<=0 at " + label)
	}
	i := len(c.choices)
	v := 0
	if i < len(c.prefix) {
		v = c.prefix[i]
		if v >= n {
			panic(fmt.Sprintf("harness: replay divergence at point %d (%s): choice %d out of range %d", i, label, v, n))
		}
	}
	if v != 0 {
		c.devs += w
	}
	c.choices = append(c.choices, v)
	c.arity = append(c.arity, n)
	c.cost = append(c.cost, w)
	c.labels = append(c.labels, label)
	c.vals = append(c.vals, "")
	return v
}

// Pick chooses among named options; the option name goes into the descriptor.
func Pick[T any](c *Ctx, label string, names []string, opts []T) T {
	i := c.Choose(label, len(opts))
	c.vals[len(c.vals)-1] = names[i]
	return opts[i]
}

// PickS chooses among strings.
func (c *Ctx) PickS(label string, opts ...string) string {
	i := c.Choose(label, len(opts))
	c.vals[len(c.vals)-1] = opts[i]
	return opts[i]
}

// PickI chooses among ints.
func (c *Ctx) PickI(label string, opts ...int) int {
	i := c.Choose(label, len(opts))
	c.vals[len(c.vals)-1] = fmt.Sprint(opts[i])
	return opts[i]
}

// Bool is a two-way choice, default false.
func (c *Ctx) Bool(label string) bool {
	i := c.Choose(label, 2)
	c.vals[len(c.vals)-1] = []string{"n", "y"}[i]
	return i == 1
}

// Tag adds a descriptor field that is not a choice point.
func (c *Ctx) Tag(k, v string) { c.tags = append(c.tags, k+"="+clean(v)) }

// Devs is the deviation cost spent so far.
func (c *Ctx) Devs() int { return c.devs }

// Counted is false for executions that only serve to discover the tree (other shard owns them).
func (c *Ctx) Counted() bool { return c.counted }

// Desc is the canonical descriptor of this execution so far.
func (c *Ctx) Desc() string {
	var b strings.Builder
	b.WriteString(c.space)
	for i, l := range c.labels {
		b.WriteByte(' ')
		b.WriteString(l)
		b.WriteByte('=')
		if c.vals[i] != "" {
			b.WriteString(clean(c.vals[i]))
		} else {
			fmt.Fprint(&b, c.choices[i])
		}
	}
	for _, t := range c.tags {
		b.WriteByte(' ')
		b.WriteString(t)
	}
	return b.String()
}

// Pass / Fail report the outcome of this execution (dropped when not Counted).
func (c *Ctx) Pass(outcome string) {
	if c.counted {
		c.e.Pass(c.Desc(), c.devs > 0, outcome)
	}
}

func (c *Ctx) Fail(sig, detail string, files map[string][]byte) {
	if c.counted {
		c.e.fail(Failure{Desc: c.Desc(), Sig: sig, Detail: detail, Files: files,
			Prefix: append([]int{}, c.choices...), Space: c.space})
	}
}

// Explore runs body over the tree of choice vectors: every vector whose deviation cost is
// <= bound (bound < 0: the full product). space names this exploration (descriptor prefix
// "space" and replay key). It is a stateless DFS: each execution replays its prefix.
// Sharding: executions of generation < 2 are run by every worker (to discover the tree) but
// counted only by their owner; deeper subtrees belong to the owner of their generation-2 ancestor.
func (e *Env) Explore(space string, bound int, body func(c *Ctx)) {
	if e.replayDesc != "" {
		return
	}
	if e.replayPrefix != nil {
		if e.replaySpace != space {
			return
		}
		c := &Ctx{e: e, prefix: e.replayPrefix, bound: bound, counted: true, space: space}
		body(c)
		return
	}
	type task struct {
		prefix []int
		gen    int
		owner  int // -1: not yet fixed
	}
	stack := []task{{nil, 0, -1}}
	execs, dup := int64(0), int64(0)
	for len(stack) > 0 {
		t := stack[len(stack)-1]
		stack = stack[:len(stack)-1]
		owner := t.owner
		if owner < 0 {
			owner = int(h64(space+fmt.Sprint(t.prefix)) % uint64(e.nshards))
		}
		mine := owner == e.shard
		if t.gen >= 2 && !mine {
			continue
		}
		if e.TimeUp() {
			e.Incomplete("time budget reached in space " + space)
			break
		}
		c := &Ctx{e: e, prefix: t.prefix, bound: bound, counted: mine, space: space}
		body(c)
		execs++
		if !mine {
			dup++
		}
		// expand alternatives at points beyond the prefix
		devBefore := 0
		for i := 0; i < len(c.choices); i++ {
			if i >= len(t.prefix) {
				for alt := c.arity[i] - 1; alt >= 1; alt-- {
					if bound >= 0 && devBefore+c.cost[i] > bound {
						break
					}
					np := make([]int, i+1)
					copy(np, c.choices[:i])
					np[i] = alt
					child := task{np, t.gen + 1, -1}
					if t.gen+1 > 2 {
						child.owner = owner
					}
					if t.gen+1 == 2 {
						child.owner = -1
					}
					stack = append(stack, child)
				}
			}
			if c.choices[i] != 0 {
				devBefore += c.cost[i]
			}
		}
	}
	e.Add("explorer_executions", execs-dup)
}
