// Package harness is the shared driver of every check: tier/shard/replay handling,
// process-level sharding over worker subprocesses, known-findings matching,
// VIOLATION / KNOWN-FINDING lines, replay artefacts and evidence files.
//
// A check is a main package that calls harness.Main(id, level, run). run enumerates
// cases; for each case it asks e.Own(desc) (sharding + replay filter) and then
// reports e.Pass / e.Fail. The deviation-bounded / full DFS explorer (explore.go)
// sits on top of the same reporting calls.
package harness

import (
	"bufio"
	"bytes"
	"crypto/sha256"
	"encoding/hex"
	"encoding/json"
	"fmt"
	"hash/fnv"
	"os"
	"os/exec"
	"path/filepath"
	"runtime/debug"
	"sort"
	"strconv"
	"strings"
	"sync"
	"sync/atomic"
	"time"
)

// Root is the framework directory (evidence/, replays/, findings live under it): the working
// directory run.sh changes into, so that a background run from a snapshot does not write into /verif.
var Root = func() string {
	if wd, err := os.Getwd(); err == nil {
		if _, err := os.Stat(filepath.Join(wd, "properties.jsonl")); err == nil {
			return wd
		}
	}
	return "/verif"
}()

// Failure is one failing case as recorded by a worker.
type Failure struct {
	Desc   string            `json:"desc"`
	Sig    string            `json:"signature"`
	Detail string            `json:"detail"`
	Files  map[string][]byte `json:"files,omitempty"`
	Prefix []int             `json:"prefix,omitempty"`
	Space  string            `json:"space,omitempty"`
}

// Report is a worker's partial result (merged by the parent).
type Report struct {
	Evaluations int64                      `json:"evaluations"`
	Distinct    int64                      `json:"distinct"`
	Nontrivial  int64                      `json:"nontrivial"`
	Outcomes    map[string]int64           `json:"outcomes"`
	Samples     []string                   `json:"samples"`
	OutSamples  map[string]string          `json:"out_samples"`
	Failures    []Failure                  `json:"failures"`
	FailCount   map[string]int64           `json:"fail_count"` // by signature
	Counters    map[string]int64           `json:"counters"`
	MaxCounters map[string]int64           `json:"max_counters"`
	Notes       map[string]string          `json:"notes"`
	Sets        map[string]map[string]bool `json:"sets"`
	Incomplete  []string                   `json:"incomplete"`
	Died        string                     `json:"died,omitempty"`
	Rule        string                     `json:"rule"`
	Assumptions []string                   `json:"assumptions"`
}

// Env is handed to the check's run function.
type Env struct {
	ID    string
	Level string
	Tier  string
	Seed  int64

	shard, nshards int
	replayDesc     string // when non-empty only this descriptor is executed
	replayPrefix   []int
	replaySpace    string
	skip           map[string]bool

	mu        sync.Mutex
	rep       Report
	seen      map[uint64]struct{}
	start     time.Time
	deadline  time.Time
	curFile   *os.File
	caseStart atomic.Int64
	curDesc   atomic.Value
	// CaseDeadline is the per-case backstop (never a short wall-clock oracle).
	CaseDeadline time.Duration
	Rule         string
	// Track makes Begin record the current case in a tmpfs file so that a worker death
	// (fatal error, stack overflow, deadline) is attributed to exactly that case.
	Track       bool
	Assumptions []string
	maxFailKeep int
}

func (e *Env) Thorough() bool  { return e.Tier == "thorough" }
func (e *Env) Replaying() bool { return e.replayDesc != "" || e.replayPrefix != nil }

// D builds a canonical descriptor from k,v pairs. Values are made space-free.
func D(kv ...interface{}) string {
	var b strings.Builder
	for i := 0; i+1 < len(kv); i += 2 {
		if i > 0 {
			b.WriteByte(' ')
		}
		b.WriteString(fmt.Sprint(kv[i]))
		b.WriteByte('=')
		b.WriteString(clean(fmt.Sprint(kv[i+1])))
	}
	return b.String()
}

var cleaner = strings.NewReplacer(" ", "_", "\n", "\\n", "\r", "\\r", "\t", "\\t")

func clean(s string) string {
	if s == "" {
		return "-"
	}
	if strings.IndexAny(s, " \n\r\t") < 0 {
		return s
	}
	return cleaner.Replace(s)
}

func h64(s string) uint64 {
	h := fnv.New64a()
	h.Write([]byte(s))
	return h.Sum64()
}

// Own decides whether this worker executes the case with descriptor desc.
func (e *Env) Own(desc string) bool {
	if e.replayDesc != "" {
		return desc == e.replayDesc
	}
	if e.replayPrefix != nil {
		return false
	}
	if e.nshards > 1 && int(h64(desc)%uint64(e.nshards)) != e.shard {
		return false
	}
	if e.skip[desc] {
		return false
	}
	return true
}

// Begin marks the start of a case (crash attribution + per-case deadline backstop).
func (e *Env) Begin(desc string) {
	e.curDesc.Store(desc)
	e.caseStart.Store(time.Now().UnixNano())
	if e.curFile != nil && e.Track {
		b := []byte(desc + "\n")
		e.curFile.Truncate(0)
		e.curFile.WriteAt(b, 0)
	}
}

func (e *Env) End() { e.caseStart.Store(0) }

func (e *Env) count(desc string, nontrivial bool, outcome string) {
	e.rep.Evaluations++
	k := h64(desc)
	if _, ok := e.seen[k]; !ok {
		e.seen[k] = struct{}{}
		e.rep.Distinct++
		if nontrivial {
			e.rep.Nontrivial++
		}
	}
	e.rep.Outcomes[outcome]++
	if _, ok := e.rep.OutSamples[outcome]; !ok && len(e.rep.OutSamples) < 64 {
		e.rep.OutSamples[outcome] = desc
	}
	// deterministic sample rotation by seed
	if len(e.rep.Samples) < 6 {
		e.rep.Samples = append(e.rep.Samples, desc)
	} else if (k^uint64(e.Seed)*0x9e3779b97f4a7c15)%997 == 0 {
		e.rep.Samples[int(k%6)] = desc
	}
}

// Pass records a case on which the property held.
func (e *Env) Pass(desc string, nontrivial bool, outcome string) {
	e.mu.Lock()
	defer e.mu.Unlock()
	e.count(desc, nontrivial, "ok:"+outcome)
	e.caseStart.Store(0)
}

// Fail records a case on which the property did not hold.
func (e *Env) Fail(desc, sig, detail string, files map[string][]byte) {
	e.fail(Failure{Desc: desc, Sig: sig, Detail: detail, Files: files})
}

func (e *Env) fail(f Failure) {
	e.mu.Lock()
	defer e.mu.Unlock()
	e.count(f.Desc, true, "FAIL:"+f.Sig)
	e.rep.FailCount[f.Sig]++
	if len(f.Detail) > 4000 {
		f.Detail = f.Detail[:4000] + "…"
	}
	// keep every failure descriptor (needed for known-finding matching) but
	// payload files only for the first few of each signature
	if e.rep.FailCount[f.Sig] > int64(e.maxFailKeep) {
		f.Files = nil
		if e.rep.FailCount[f.Sig] > 20000 {
			f.Detail = ""
		}
	}
	e.rep.Failures = append(e.rep.Failures, f)
	e.caseStart.Store(0)
}

// Add accumulates a named counter (summed over workers) into coverage.
func (e *Env) Add(name string, n int64) {
	e.mu.Lock()
	e.rep.Counters[name] += n
	e.mu.Unlock()
}

// Max records the maximum of a named quantity over workers.
func (e *Env) Max(name string, n int64) {
	e.mu.Lock()
	if n > e.rep.MaxCounters[name] {
		e.rep.MaxCounters[name] = n
	}
	e.mu.Unlock()
}

// AddSet adds member to a named set; evidence reports the size of the union over all workers.
func (e *Env) AddSet(name, member string) {
	e.mu.Lock()
	if e.rep.Sets[name] == nil {
		e.rep.Sets[name] = map[string]bool{}
	}
	e.rep.Sets[name][member] = true
	e.mu.Unlock()
}

// Note stores a free-text coverage note (last writer wins; use for constants of the run).
func (e *Env) Note(name, v string) {
	e.mu.Lock()
	e.rep.Notes[name] = v
	e.mu.Unlock()
}

// Incomplete marks the run as not exhaustive (a cap was hit) with a reason.
func (e *Env) Incomplete(reason string) {
	e.mu.Lock()
	for _, r := range e.rep.Incomplete {
		if r == reason {
			e.mu.Unlock()
			return
		}
	}
	e.rep.Incomplete = append(e.rep.Incomplete, reason)
	e.mu.Unlock()
}

// TimeUp reports whether the internal time budget of the tier is used up. A check that
// stops because of it must call Incomplete; it still exits 0.
func (e *Env) TimeUp() bool { return !e.deadline.IsZero() && time.Now().After(e.deadline) }

// SetBudget sets the internal wall-clock budget (from now) for this worker.
func (e *Env) SetBudget(d time.Duration) { e.deadline = time.Now().Add(d) }

// Guard runs f, converting a panic into (sig, stack). sig is "panic@<first tabula frame>".
func Guard(f func()) (sig, detail string) {
	defer func() {
		if r := recover(); r != nil {
			st := string(debug.Stack())
			sig = "panic@" + firstTabulaFrame(st)
			detail = fmt.Sprintf("%v\n%s", r, st)
		}
	}()
	f()
	return "", ""
}

func firstTabulaFrame(st string) string {
	sc := bufio.NewScanner(strings.NewReader(st))
	for sc.Scan() {
		l := sc.Text()
		if strings.HasPrefix(l, "github.com/tsawler/tabula") {
			l = strings.TrimPrefix(l, "github.com/tsawler/tabula")
			l = strings.TrimPrefix(l, "/")
			if i := strings.LastIndex(l, "("); i > 0 {
				l = l[:i]
			}
			return l
		}
	}
	return "unknown"
}

// ---------------------------------------------------------------------------------

type finding struct {
	Property  string            `json:"property"`
	ID        string            `json:"id"`
	Status    string            `json:"status"`
	Match     map[string]string `json:"match"`
	Signature string            `json:"signature"`
	What      string            `json:"what"`
	Commit    string            `json:"commit,omitempty"`
}

// loadFindings reads the committed known-findings files: known_findings.jsonl (index + fixed
// records) and findings/<id>.jsonl (the open findings of one property).
func loadFindings(id string) []finding {
	var out []finding
	for _, p := range []string{filepath.Join(Root, "known_findings.jsonl"), filepath.Join(Root, "findings", id+".jsonl")} {
		out = append(out, loadFindingsFile(p, id)...)
	}
	return out
}

func loadFindingsFile(path, id string) []finding {
	f, err := os.Open(path)
	if err != nil {
		return nil
	}
	defer f.Close()
	var out []finding
	sc := bufio.NewScanner(f)
	sc.Buffer(make([]byte, 1<<20), 1<<20)
	for sc.Scan() {
		l := strings.TrimSpace(sc.Text())
		if l == "" || strings.HasPrefix(l, "#") || strings.HasPrefix(l, "fixed:") {
			continue
		}
		var x finding
		if err := json.Unmarshal([]byte(l), &x); err != nil {
			fmt.Fprintf(os.Stderr, "%s: bad line: %v\n", path, err)
			os.Exit(2)
		}
		if x.Property == id && x.Status == "open" {
			out = append(out, x)
		}
	}
	return out
}

func (f finding) matches(fl Failure) bool {
	if f.Signature != fl.Sig {
		if !(strings.HasSuffix(f.Signature, "*") && strings.HasPrefix(fl.Sig, strings.TrimSuffix(f.Signature, "*"))) {
			return false
		}
	}
	toks := map[string]bool{}
	for _, t := range strings.Fields(fl.Desc) {
		toks[t] = true
	}
	for k, v := range f.Match {
		if !toks[k+"="+v] {
			return false
		}
	}
	return true
}

// ---------------------------------------------------------------------------------

// Main is the entry point of every check binary.
//
//	<bin> quick|thorough            parent: shards over worker subprocesses
//	<bin> replay <file>             re-executes one recorded case
//	<bin> worker <tier> i n out     internal
func Main(id, level string, run func(e *Env)) {
	args := os.Args[1:]
	if len(args) == 0 {
		args = []string{"quick"}
	}
	seed, _ := strconv.ParseInt(os.Getenv("VERIF_SEED"), 10, 64)
	switch args[0] {
	case "worker":
		i, _ := strconv.Atoi(args[2])
		n, _ := strconv.Atoi(args[3])
		e := newEnv(id, level, args[1], seed)
		e.shard, e.nshards = i, n
		if s := os.Getenv("VERIF_SKIPFILE"); s != "" {
			if b, err := os.ReadFile(s); err == nil {
				for _, l := range strings.Split(string(b), "\n") {
					if l != "" {
						e.skip[l] = true
					}
				}
			}
		}
		if cf := os.Getenv("VERIF_CURFILE"); cf != "" {
			e.curFile, _ = os.OpenFile(cf, os.O_CREATE|os.O_RDWR, 0o644)
		}
		runWorker(e, run, args[4])
	case "replay":
		if len(args) < 2 {
			fmt.Fprintln(os.Stderr, "usage: replay <file>")
			os.Exit(2)
		}
		if os.Getenv("VERIF_REPLAY_INNER") == "" {
			os.Exit(superviseReplay(id, args[1]))
		}
		os.Exit(replay(id, level, seed, args[1], run, true))
	case "quick", "thorough":
		tier := args[0]
		if t := os.Getenv("VERIF_TIER"); t == "quick" || t == "thorough" {
			tier = t
		}
		os.Exit(parent(id, level, tier, seed, run))
	default:
		fmt.Fprintln(os.Stderr, "usage: quick|thorough|replay <file>")
		os.Exit(2)
	}
}

func newEnv(id, level, tier string, seed int64) *Env {
	e := &Env{ID: id, Level: level, Tier: tier, Seed: seed, nshards: 1, skip: map[string]bool{},
		seen: map[uint64]struct{}{}, start: time.Now(), CaseDeadline: 300 * time.Second, maxFailKeep: 3}
	e.rep.Outcomes = map[string]int64{}
	e.rep.OutSamples = map[string]string{}
	e.rep.FailCount = map[string]int64{}
	e.rep.Counters = map[string]int64{}
	e.rep.MaxCounters = map[string]int64{}
	e.rep.Notes = map[string]string{}
	e.rep.Sets = map[string]map[string]bool{}
	return e
}

func runWorker(e *Env, run func(e *Env), out string) {
	// watchdog: backstop only; generous.
	go func() {
		for {
			time.Sleep(500 * time.Millisecond)
			st := e.caseStart.Load()
			if st != 0 && time.Since(time.Unix(0, st)) > e.CaseDeadline {
				d, _ := e.curDesc.Load().(string)
				fmt.Fprintf(os.Stderr, "\nVERIF-DEADLINE %s\n", d)
				os.Exit(3)
			}
		}
	}()
	run(e)
	e.mu.Lock()
	e.rep.Rule, e.rep.Assumptions = e.Rule, e.Assumptions
	b, _ := json.Marshal(&e.rep)
	e.mu.Unlock()
	if err := os.WriteFile(out, b, 0o644); err != nil {
		fmt.Fprintln(os.Stderr, err)
		os.Exit(2)
	}
	os.Exit(0)
}

func scratch() string {
	base := "/dev/shm"
	if st, err := os.Stat(base); err != nil || !st.IsDir() {
		base = filepath.Join(Root, ".build")
	}
	d, err := os.MkdirTemp(base, "verif-")
	if err != nil {
		d, _ = os.MkdirTemp(filepath.Join(Root, ".build"), "verif-")
	}
	return d
}

// Scratch returns a per-process scratch directory (tmpfs), removed by the caller.
func Scratch() string { return scratch() }

func parent(id, level, tier string, seed int64, run func(e *Env)) int {
	start := time.Now()
	n := 16
	if s := os.Getenv("VERIF_WORKERS"); s != "" {
		if v, err := strconv.Atoi(s); err == nil && v > 0 {
			n = v
		}
	}
	dir := scratch()
	defer os.RemoveAll(dir)
	self, _ := os.Executable()
	type res struct {
		rep  Report
		died []Failure
		err  string
	}
	results := make([]res, n)
	var wg sync.WaitGroup
	for i := 0; i < n; i++ {
		wg.Add(1)
		go func(i int) {
			defer wg.Done()
			var skip []string
			for attempt := 0; attempt < 40; attempt++ {
				out := filepath.Join(dir, fmt.Sprintf("rep-%d.json", i))
				cur := filepath.Join(dir, fmt.Sprintf("cur-%d", i))
				skipf := filepath.Join(dir, fmt.Sprintf("skip-%d", i))
				os.Remove(out)
				os.Remove(cur)
				os.WriteFile(skipf, []byte(strings.Join(skip, "\n")), 0o644)
				errf := filepath.Join(dir, fmt.Sprintf("err-%d", i))
				ef, _ := os.Create(errf)
				cmd := exec.Command(self, "worker", tier, strconv.Itoa(i), strconv.Itoa(n), out)
				cmd.Env = append(os.Environ(), "VERIF_CURFILE="+cur, "VERIF_SKIPFILE="+skipf, "GOMAXPROCS=2")
				cmd.Stdout = ef
				cmd.Stderr = ef
				err := cmd.Run()
				ef.Close()
				if err == nil {
					b, rerr := os.ReadFile(out)
					if rerr != nil || json.Unmarshal(b, &results[i].rep) != nil {
						results[i].err = "worker wrote no report"
					}
					return
				}
				// abnormal death: attribute to the current case if known
				eb, _ := os.ReadFile(errf)
				cb, _ := os.ReadFile(cur)
				desc := strings.TrimSpace(string(cb))
				if desc == "" {
					results[i].err = fmt.Sprintf("worker %d died without a current case: %v\n%s", i, err, tail(string(eb), 3000))
					return
				}
				sig := "died:" + classifyDeath(string(eb))
				results[i].died = append(results[i].died, Failure{Desc: desc, Sig: sig, Detail: tail(string(eb), 6000)})
				skip = append(skip, desc)
			}
			results[i].err = "worker restarted too often"
		}(i)
	}
	wg.Wait()

	// merge
	total := newEnv(id, level, tier, seed)
	m := &total.rep
	var herr []string
	for i := range results {
		r := results[i]
		if r.err != "" {
			herr = append(herr, r.err)
		}
		m.Evaluations += r.rep.Evaluations
		m.Distinct += r.rep.Distinct
		m.Nontrivial += r.rep.Nontrivial
		for k, v := range r.rep.Outcomes {
			m.Outcomes[k] += v
		}
		for k, v := range r.rep.OutSamples {
			if _, ok := m.OutSamples[k]; !ok {
				m.OutSamples[k] = v
			}
		}
		for k, v := range r.rep.Counters {
			m.Counters[k] += v
		}
		for k, v := range r.rep.MaxCounters {
			if v > m.MaxCounters[k] {
				m.MaxCounters[k] = v
			}
		}
		for k, v := range r.rep.Notes {
			m.Notes[k] = v
		}
		for k, set := range r.rep.Sets {
			if m.Sets[k] == nil {
				m.Sets[k] = map[string]bool{}
			}
			for x := range set {
				m.Sets[k][x] = true
			}
		}
		if r.rep.Rule != "" {
			total.Rule, total.Assumptions = r.rep.Rule, r.rep.Assumptions
		}
		for k, v := range r.rep.FailCount {
			m.FailCount[k] += v
		}
		if len(m.Samples) < 8 {
			for _, s := range r.rep.Samples {
				if len(m.Samples) < 8 {
					m.Samples = append(m.Samples, s)
				}
			}
		}
		m.Failures = append(m.Failures, r.rep.Failures...)
		for _, d := range r.died {
			m.Failures = append(m.Failures, d)
			m.Evaluations++
			m.Distinct++
			m.Nontrivial++
			m.Outcomes["FAIL:"+d.Sig]++
			m.FailCount[d.Sig]++
		}
		for _, inc := range r.rep.Incomplete {
			total.Incomplete(inc)
		}
	}
	if len(herr) > 0 {
		fmt.Fprintf(os.Stderr, "HARNESS-ERROR %s: %s\n", id, strings.Join(herr, "; "))
		return 2
	}
	return finish(total, start, run)
}

func tail(s string, n int) string {
	if len(s) > n {
		return s[len(s)-n:]
	}
	return s
}

func classifyDeath(stderr string) string {
	for _, l := range strings.Split(stderr, "\n") {
		if strings.HasPrefix(l, "VERIF-DEADLINE") {
			return "deadline"
		}
		if strings.HasPrefix(l, "fatal error:") {
			return strings.ReplaceAll(strings.TrimSpace(strings.TrimPrefix(l, "fatal error:")), " ", "-")
		}
		if strings.HasPrefix(l, "runtime: goroutine stack exceeds") {
			return "stack-overflow"
		}
		if strings.HasPrefix(l, "panic:") {
			return "panic-uncaught"
		}
	}
	return "killed"
}

// finish applies known findings, writes replays + evidence, prints lines, returns exit code.
func finish(total *Env, start time.Time, run func(e *Env)) int {
	id := total.ID
	m := &total.rep
	finds := loadFindings(id)
	hit := map[string]int64{}
	var viol []Failure
	sort.SliceStable(m.Failures, func(i, j int) bool {
		if len(m.Failures[i].Desc) != len(m.Failures[j].Desc) {
			return len(m.Failures[i].Desc) < len(m.Failures[j].Desc)
		}
		return m.Failures[i].Desc < m.Failures[j].Desc
	})
	for _, f := range m.Failures {
		matched := false
		for _, kf := range finds {
			if kf.matches(f) {
				hit[kf.ID]++
				matched = true
				break
			}
		}
		if !matched {
			viol = append(viol, f)
		}
	}
	for _, kf := range finds {
		if hit[kf.ID] > 0 {
			fmt.Printf("KNOWN-FINDING: property=%s %s: %s (%d cases)\n", id, kf.ID, kf.What, hit[kf.ID])
		}
	}
	// replay artefacts
	rdir := filepath.Join(Root, "replays", id)
	os.RemoveAll(rdir)
	bySig := map[string]int{}
	printed := 0
	exit := 0
	var confirm []string
	for _, f := range viol {
		bySig[f.Sig]++
		if bySig[f.Sig] > 5 {
			continue
		}
		os.MkdirAll(rdir, 0o755)
		sum := sha256.Sum256([]byte(f.Desc + "|" + f.Sig))
		p := filepath.Join(rdir, hex.EncodeToString(sum[:6])+".json")
		b, _ := json.MarshalIndent(map[string]interface{}{"property": id, "desc": f.Desc, "signature": f.Sig,
			"detail": f.Detail, "prefix": f.Prefix, "space": f.Space, "tier": total.Tier}, "", " ")
		os.WriteFile(p, b, 0o644)
		for name, data := range f.Files {
			os.WriteFile(strings.TrimSuffix(p, ".json")+"."+name, data, 0o644)
		}
		if printed < 40 {
			fmt.Printf("VIOLATION property=%s replay=%s\n", id, p)
			fmt.Printf("  case: %s\n  signature: %s\n  %s\n", f.Desc, f.Sig, firstLines(f.Detail, 6))
			printed++
		}
		if len(confirm) < 12 && (bySig[f.Sig] == 1 || len(confirm) < 3) {
			confirm = append(confirm, p) // the first of every signature class, and the first three overall
		}
		exit = 1
	}
	if len(viol) > printed {
		fmt.Printf("(%d violating cases in %d signature classes; first %d shown)\n", len(viol), len(bySig), printed)
	}
	// determinism of reported violations: replay must reproduce the same signature
	if exit == 1 && os.Getenv("VERIF_NOCONFIRM") == "" {
		// A violation is believed when its recorded case fails the same way in two fresh replays. The first
		// candidates are tried in turn until one is confirmed; candidates that do not reproduce are reported.
		// If none reproduces, nothing is believed: harness error (exit 2), not a violation.
		self, _ := os.Executable()
		confirmed, flaky := 0, 0
		var lastOut string
		for ci, p := range confirm {
			ok := true
			for k := 0; k < 2 && ok; k++ {
				cmd := exec.Command(self, "replay", p)
				cmd.Env = append(os.Environ(), "VERIF_REPLAY_QUIET=1")
				out, _ := cmd.CombinedOutput()
				if cmd.ProcessState == nil || cmd.ProcessState.ExitCode() != 1 {
					ok = false
					lastOut = fmt.Sprintf("violation %s did not reproduce on replay (exit %v):\n%s", p, cmd.ProcessState, tail(string(out), 2000))
				}
			}
			if ok {
				confirmed++
			} else {
				flaky++
				fmt.Printf("NOT-REPRODUCED property=%s replay=%s (the recorded case did not fail the same way when replayed)\n", id, p)
			}
			if confirmed >= 1 && ci >= 2 {
				break
			}
		}
		if confirmed == 0 {
			fmt.Fprintf(os.Stderr, "HARNESS-ERROR %s: none of %d checked violations reproduced on replay; last: %s\n", id, flaky, lastOut)
			return 2
		}
		if flaky > 0 {
			fmt.Printf("note: %d of %d checked violations did not reproduce on replay (behaviour that differs between identical runs of the same case); %d reproduced twice\n", flaky, flaky+confirmed, confirmed)
		}
	}
	writeEvidence(total, start, int64(len(viol)), hit)
	line := fmt.Sprintf("%s %s: evaluations=%d distinct=%d nontrivial=%d outcomes=%d violations=%d known_findings_hit=%d exhaustive=%v wall=%.1fs\n",
		id, total.Tier, m.Evaluations, m.Distinct, m.Nontrivial, len(m.Outcomes), len(viol), len(hit), len(m.Incomplete) == 0, time.Since(start).Seconds())
	fmt.Print(line)
	if os.Getenv("VERIF_REPO") == "" && os.Getenv("VERIF_DEV") == "" {
		// last summary line per tier (the evidence file only holds the most recent run of either tier)
		_ = os.MkdirAll(filepath.Join(Root, "summary"), 0o755)
		_ = os.WriteFile(filepath.Join(Root, "summary", id+"."+total.Tier+".txt"), []byte(line), 0o644)
	}
	return exit
}

func firstLines(s string, n int) string {
	ls := strings.Split(s, "\n")
	if len(ls) > n {
		ls = ls[:n]
	}
	return strings.Join(ls, "\n  ")
}

func writeEvidence(total *Env, start time.Time, violations int64, hit map[string]int64) {
	m := &total.rep
	cov := map[string]interface{}{
		"evaluations":         m.Evaluations,
		"distinct_cases":      m.Distinct,
		"distinct_nontrivial": m.Nontrivial,
		"rule":                total.Rule,
		"samples":             m.Samples,
		"exhaustive":          len(m.Incomplete) == 0,
		"distinct_outcomes":   len(m.Outcomes),
		"outcome_classes":     topOutcomes(m.Outcomes, 40),
		"outcome_examples":    limitMap(m.OutSamples, 40),
	}
	if len(m.Incomplete) > 0 {
		cov["caps_hit"] = m.Incomplete
	}
	for k, v := range m.Counters {
		cov[k] = v
	}
	for k, v := range m.MaxCounters {
		cov[k] = v
	}
	for k, v := range m.Notes {
		cov[k] = v
	}
	for k, set := range m.Sets {
		cov[k] = len(set)
	}
	if len(hit) > 0 {
		cov["known_findings_hit"] = hit
	}
	if len(m.Samples) == 0 {
		cov["samples"] = []string{"(none)"}
	}
	ev := map[string]interface{}{
		"property_id": total.ID,
		"tier":        total.Tier,
		"seed":        total.Seed,
		"level":       total.Level,
		"coverage":    cov,
		"assumptions": total.Assumptions,
		"wall_s":      time.Since(start).Seconds(),
		"violations":  violations,
	}
	if total.Assumptions == nil {
		ev["assumptions"] = []string{}
	}
	b, _ := json.MarshalIndent(ev, "", " ")
	// development runs against a scratch checkout (VERIF_REPO) must not overwrite the evidence of /repo
	evdir := filepath.Join(Root, "evidence")
	if os.Getenv("VERIF_REPO") != "" || os.Getenv("VERIF_DEV") != "" {
		evdir = filepath.Join(Root, ".build", "evidence-dev")
	}
	os.MkdirAll(evdir, 0o755)
	os.WriteFile(filepath.Join(evdir, total.ID+".json"), append(b, '\n'), 0o644)
}

func topOutcomes(m map[string]int64, n int) map[string]int64 {
	type kv struct {
		k string
		v int64
	}
	var s []kv
	for k, v := range m {
		s = append(s, kv{k, v})
	}
	sort.Slice(s, func(i, j int) bool { return s[i].v > s[j].v || (s[i].v == s[j].v && s[i].k < s[j].k) })
	out := map[string]int64{}
	for i, x := range s {
		if i >= n {
			out["(other classes)"] += x.v
			continue
		}
		out[x.k] = x.v
	}
	return out
}

func limitMap(m map[string]string, n int) map[string]string {
	keys := make([]string, 0, len(m))
	for k := range m {
		keys = append(keys, k)
	}
	sort.Strings(keys)
	out := map[string]string{}
	for i, k := range keys {
		if i >= n {
			break
		}
		out[k] = m[k]
	}
	return out
}

// replay re-executes one recorded case in this process. Exit 1 + VIOLATION if it fails again.
// superviseReplay runs the replay in a child process, so that a case whose recorded verdict is the death of
// the worker (deadline backstop, fatal runtime error, stack overflow) reproduces as that verdict instead of
// taking the replaying process down with it.
func superviseReplay(id, path string) int {
	var rec struct {
		Desc string `json:"desc"`
		Sig  string `json:"signature"`
	}
	if b, err := os.ReadFile(path); err == nil {
		_ = json.Unmarshal(b, &rec)
	}
	self, _ := os.Executable()
	cmd := exec.Command(self, "replay", path)
	cmd.Env = append(os.Environ(), "VERIF_REPLAY_INNER=1")
	var eb bytes.Buffer
	cmd.Stdout = os.Stdout
	cmd.Stderr = &eb
	err := cmd.Run()
	stderr := eb.String()
	code := 0
	if err != nil {
		code = -1
		if cmd.ProcessState != nil && cmd.ProcessState.Exited() {
			code = cmd.ProcessState.ExitCode()
		}
	}
	death := ""
	switch {
	case code == 3, code == -1:
		death = "died:" + classifyDeath(stderr)
	case code == 2 && (strings.Contains(stderr, "\nfatal error:") || strings.HasPrefix(stderr, "fatal error:") ||
		strings.Contains(stderr, "goroutine stack exceeds") || strings.Contains(stderr, "\npanic:") || strings.HasPrefix(stderr, "panic:")):
		death = "died:" + classifyDeath(stderr)
	}
	if death == "" {
		os.Stderr.WriteString(stderr)
		return code
	}
	if rec.Sig != "" && death != rec.Sig {
		fmt.Fprintf(os.Stderr, "replay: signature changed: recorded %q, now %q\n%s\n", rec.Sig, death, tail(stderr, 2000))
		return 2
	}
	if os.Getenv("VERIF_REPLAY_QUIET") == "" {
		fmt.Printf("VIOLATION property=%s replay=%s\n  case: %s\n  signature: %s\n  %s\n", id, path, rec.Desc, death, firstLines(tail(stderr, 3000), 30))
	}
	return 1
}

func replay(id, level string, seed int64, path string, run func(e *Env), print bool) int {
	b, err := os.ReadFile(path)
	if err != nil {
		fmt.Fprintln(os.Stderr, err)
		return 2
	}
	var r struct {
		Desc   string `json:"desc"`
		Sig    string `json:"signature"`
		Prefix []int  `json:"prefix"`
		Space  string `json:"space"`
		Tier   string `json:"tier"`
	}
	if err := json.Unmarshal(b, &r); err != nil {
		fmt.Fprintln(os.Stderr, err)
		return 2
	}
	if r.Tier == "" {
		r.Tier = "thorough"
	}
	e := newEnv(id, level, r.Tier, seed)
	e.replayDesc = r.Desc
	if r.Prefix != nil {
		e.replayDesc = ""
		e.replayPrefix = r.Prefix
		e.replaySpace = r.Space
	}
	e.maxFailKeep = 1 << 30
	// the same per-case backstop as in a worker
	go func() {
		for {
			time.Sleep(500 * time.Millisecond)
			st := e.caseStart.Load()
			if st != 0 && time.Since(time.Unix(0, st)) > e.CaseDeadline {
				d, _ := e.curDesc.Load().(string)
				fmt.Fprintf(os.Stderr, "\nVERIF-DEADLINE %s\n", d)
				os.Exit(3)
			}
		}
	}()
	run(e)
	quiet := os.Getenv("VERIF_REPLAY_QUIET") != ""
	if e.rep.Evaluations == 0 {
		fmt.Fprintf(os.Stderr, "replay: case %q was not generated by the enumeration (tier %s)\n", r.Desc, r.Tier)
		return 2
	}
	for _, f := range e.rep.Failures {
		if !quiet {
			fmt.Printf("VIOLATION property=%s replay=%s\n  case: %s\n  signature: %s\n  %s\n", id, path, f.Desc, f.Sig, firstLines(f.Detail, 30))
		}
		if r.Sig != "" && f.Sig != r.Sig {
			fmt.Fprintf(os.Stderr, "replay: signature changed: recorded %q, now %q\n", r.Sig, f.Sig)
			return 2
		}
		return 1
	}
	if !quiet {
		fmt.Printf("replay: property %s holds on case %s\n", id, r.Desc)
	}
	return 0
}
