// Package pptxw is an independent, minimal PresentationML (PPTX) writer for the verification
// checks. Its logical input (slides in DECLARED order, each with a title / paragraphs / table /
// notes) is what a conforming reader has to present; everything about the physical package is
// under explicit control of the caller:
//
//   - declared order            = order of Deck.Slides (p:sldIdLst, resolved through r:id ->
//     ppt/_rels/presentation.xml.rels -> Target)
//   - part file names / paths   = Slide.Path (any ZIP member name; default ppt/slides/slide<k>.xml,
//     k = declared position)
//   - relationship ids          = Slide.RID (default rId<100+k>; deliberately NOT the file number)
//   - sldId id attributes       = Slide.SlideID (default 256+k)
//   - order of <Relationship>   = Deck.RelOrder
//   - Target spelling           = Deck.TargetStyle (relative to ppt/, absolute "/ppt/...",
//     "./"-prefixed)
//   - ZIP member order          = Deck.PartOrder (relative order of the slide members) and
//     Deck.PartsFirst (slide members before / after the infrastructure members); Members() returns
//     the member list for callers that want any other arrangement
//   - optional parts            = Deck.Omit* switches (docProps, theme/master/layout, slide .rels);
//     per slide: Slide.Notes (notes slide + relationship), Slide.NoRels (no .rels companion part)
//   - absent declared part      = Slide.Absent (sldId and Relationship exist, the part does not)
//   - decoys                    = Deck.Decoys: slide parts that exist in the archive but are not in
//     sldIdLst (optionally still related from presentation.xml.rels, like a deleted slide that a
//     producer left behind)
//
// Typical use:
//
//	d := pptxw.Deck{Slides: []pptxw.Slide{{Title: "One", Paras: []pptxw.Para{{Text: "first"}}}, {Title: "Two"}}}
//	data := d.Bytes()
//
// The writer never consults tabula; it only uses encoding/xml escaping and zipw.
package pptxw

import (
	"bytes"
	"encoding/xml"
	"fmt"
	"path"
	"strings"

	"verif/internal/gen/zipw"
)

// Para is one paragraph of a slide body.
type Para struct {
	Text   string
	Level  int    // bullet level (a:pPr lvl)
	Bullet string // "" (none declared), "char" (a:buChar), "num" (a:buAutoNum), "none" (a:buNone)
}

// Slide is one slide part.
type Slide struct {
	// Path is the ZIP member name of the part. Default "ppt/slides/slide<k>.xml" where k is the
	// 1-based declared position (decoys: continuing after the declared slides).
	Path string
	// RID is the relationship id used in sldIdLst / presentation.xml.rels. Default "rId<100+k>".
	RID string
	// SlideID is the id attribute of the p:sldId element (an arbitrary unique number >= 256 that
	// carries no order; PowerPoint keeps it when slides are moved). Default 256+declared position.
	SlideID int
	// Target overrides the Target attribute written to presentation.xml.rels (default: derived
	// from Path according to Deck.TargetStyle).
	Target string

	Title    string     // title placeholder (p:ph type="title"); "" = no title shape
	Paras    []Para     // body placeholder paragraphs
	Table    [][]string // optional a:tbl in a p:graphicFrame
	Notes    string     // optional notes slide (ppt/notesSlides/notesSlide<k>.xml + slide .rels)
	RawShape string     // raw XML appended inside p:spTree (for checks that need other shapes)

	// NoRels: this slide has no ppt/slides/_rels/<slide>.xml.rels companion part although other
	// slides may have one (ignored when the slide has Notes, which need the relationship).
	NoRels bool
	// Absent: the slide is declared (sldId + Relationship) but its part is not written.
	Absent bool
	// Related (decoys only): the decoy also has a <Relationship> in presentation.xml.rels although
	// no sldId refers to it.
	Related bool
}

// Target spellings for presentation.xml.rels.
const (
	TargetRelative = ""         // "slides/slide1.xml" (relative to /ppt/, the usual form)
	TargetAbsolute = "absolute" // "/ppt/slides/slide1.xml"
	TargetDotSlash = "dot"      // "./slides/slide1.xml"
)

// Deck is the logical presentation plus packaging choices.
type Deck struct {
	Slides []Slide // DECLARED order (sldIdLst)
	Decoys []Slide // slide parts not referenced from sldIdLst

	RelOrder    []int  // order of the slide <Relationship> elements: permutation of 0..len(Slides)-1 (nil: declared order)
	TargetStyle string // TargetRelative | TargetAbsolute | TargetDotSlash
	PartOrder   []int  // ZIP order of the slide members: permutation over Slides followed by Decoys (nil: as listed)
	PartsFirst  bool   // slide members (and their rels/notes) before the infrastructure members

	Title, Author string // docProps/core.xml

	OmitDocProps  bool // no docProps/core.xml, docProps/app.xml
	OmitTheme     bool // no theme / slideMaster / slideLayout parts (and no relationships to them)
	OmitSlideRels bool // no ppt/slides/_rels/*.rels (only effective for slides without notes)
}

const (
	nsP   = "http://schemas.openxmlformats.org/presentationml/2006/main"
	nsA   = "http://schemas.openxmlformats.org/drawingml/2006/main"
	nsR   = "http://schemas.openxmlformats.org/officeDocument/2006/relationships"
	nsRel = "http://schemas.openxmlformats.org/package/2006/relationships"
	relT  = "http://schemas.openxmlformats.org/officeDocument/2006/relationships/"
	hdr   = `<?xml version="1.0" encoding="UTF-8" standalone="yes"?>` + "\n"
)

// Esc escapes text for XML character data / attribute values.
func Esc(s string) string {
	var b bytes.Buffer
	xml.EscapeText(&b, []byte(s))
	return b.String()
}

// resolved returns copies of the slides with defaults filled in (declared first, then decoys).
func (d *Deck) resolved() (decl, decoys []Slide) {
	fill := func(s Slide, k int) Slide {
		if s.Path == "" {
			s.Path = fmt.Sprintf("ppt/slides/slide%d.xml", k)
		}
		if s.RID == "" {
			s.RID = fmt.Sprintf("rId%d", 100+k)
		}
		return s
	}
	for i, s := range d.Slides {
		decl = append(decl, fill(s, i+1))
	}
	for i, s := range d.Decoys {
		decoys = append(decoys, fill(s, len(d.Slides)+i+1))
	}
	return
}

func (d *Deck) target(s Slide) string {
	if s.Target != "" {
		return s.Target
	}
	switch d.TargetStyle {
	case TargetAbsolute:
		return "/" + s.Path
	case TargetDotSlash:
		return "./" + RelTo("ppt", s.Path)
	}
	return RelTo("ppt", s.Path)
}

// RelTo expresses the package path p relative to the directory dir ("a/b", no trailing slash),
// using "../" segments where needed.
func RelTo(dir, p string) string {
	ds := strings.Split(dir, "/")
	if dir == "" {
		ds = nil
	}
	ps := strings.Split(p, "/")
	i := 0
	for i < len(ds) && i < len(ps)-1 && ds[i] == ps[i] {
		i++
	}
	return strings.Repeat("../", len(ds)-i) + strings.Join(ps[i:], "/")
}

// SlideXML renders one slide part.
func SlideXML(s Slide) string {
	var b strings.Builder
	b.WriteString(hdr)
	fmt.Fprintf(&b, `<p:sld xmlns:a="%s" xmlns:r="%s" xmlns:p="%s"><p:cSld><p:spTree>`, nsA, nsR, nsP)
	b.WriteString(`<p:nvGrpSpPr><p:cNvPr id="1" name=""/><p:cNvGrpSpPr/><p:nvPr/></p:nvGrpSpPr><p:grpSpPr/>`)
	id := 2
	if s.Title != "" {
		fmt.Fprintf(&b, `<p:sp><p:nvSpPr><p:cNvPr id="%d" name="Title %d"/><p:cNvSpPr><a:spLocks noGrp="1"/></p:cNvSpPr><p:nvPr><p:ph type="title"/></p:nvPr></p:nvSpPr><p:spPr/>`, id, id)
		fmt.Fprintf(&b, `<p:txBody><a:bodyPr/><a:lstStyle/><a:p><a:r><a:rPr lang="en-US"/><a:t>%s</a:t></a:r></a:p></p:txBody></p:sp>`, Esc(s.Title))
		id++
	}
	if len(s.Paras) > 0 {
		fmt.Fprintf(&b, `<p:sp><p:nvSpPr><p:cNvPr id="%d" name="Content %d"/><p:cNvSpPr><a:spLocks noGrp="1"/></p:cNvSpPr><p:nvPr><p:ph idx="1"/></p:nvPr></p:nvSpPr><p:spPr/>`, id, id)
		b.WriteString(`<p:txBody><a:bodyPr/><a:lstStyle/>`)
		for _, p := range s.Paras {
			b.WriteString(`<a:p>`)
			if p.Level > 0 || p.Bullet != "" {
				fmt.Fprintf(&b, `<a:pPr lvl="%d">`, p.Level)
				switch p.Bullet {
				case "char":
					b.WriteString(`<a:buChar char="&#8226;"/>`)
				case "num":
					b.WriteString(`<a:buAutoNum type="arabicPeriod"/>`)
				case "none":
					b.WriteString(`<a:buNone/>`)
				}
				b.WriteString(`</a:pPr>`)
			}
			fmt.Fprintf(&b, `<a:r><a:rPr lang="en-US"/><a:t>%s</a:t></a:r></a:p>`, Esc(p.Text))
		}
		b.WriteString(`</p:txBody></p:sp>`)
		id++
	}
	if len(s.Table) > 0 {
		fmt.Fprintf(&b, `<p:graphicFrame><p:nvGraphicFramePr><p:cNvPr id="%d" name="Table %d"/><p:cNvGraphicFramePr><a:graphicFrameLocks noGrp="1"/></p:cNvGraphicFramePr><p:nvPr/></p:nvGraphicFramePr>`, id, id)
		b.WriteString(`<p:xfrm><a:off x="0" y="0"/><a:ext cx="100" cy="100"/></p:xfrm><a:graphic><a:graphicData uri="http://schemas.openxmlformats.org/drawingml/2006/table"><a:tbl><a:tblPr firstRow="1"/><a:tblGrid>`)
		for range s.Table[0] {
			b.WriteString(`<a:gridCol w="1000"/>`)
		}
		b.WriteString(`</a:tblGrid>`)
		for _, row := range s.Table {
			b.WriteString(`<a:tr h="300">`)
			for _, c := range row {
				fmt.Fprintf(&b, `<a:tc><a:txBody><a:bodyPr/><a:lstStyle/><a:p><a:r><a:rPr lang="en-US"/><a:t>%s</a:t></a:r></a:p></a:txBody><a:tcPr/></a:tc>`, Esc(c))
			}
			b.WriteString(`</a:tr>`)
		}
		b.WriteString(`</a:tbl></a:graphicData></a:graphic></p:graphicFrame>`)
		id++
	}
	b.WriteString(s.RawShape)
	b.WriteString(`</p:spTree></p:cSld><p:clrMapOvr><a:masterClrMapping/></p:clrMapOvr></p:sld>`)
	return b.String()
}

func notesXML(text string) string {
	return hdr + fmt.Sprintf(`<p:notes xmlns:a="%s" xmlns:r="%s" xmlns:p="%s"><p:cSld><p:spTree><p:nvGrpSpPr><p:cNvPr id="1" name=""/><p:cNvGrpSpPr/><p:nvPr/></p:nvGrpSpPr><p:grpSpPr/>`+
		`<p:sp><p:nvSpPr><p:cNvPr id="2" name="Notes"/><p:cNvSpPr/><p:nvPr><p:ph type="body" idx="1"/></p:nvPr></p:nvSpPr><p:spPr/><p:txBody><a:bodyPr/><a:lstStyle/><a:p><a:r><a:t>%s</a:t></a:r></a:p></p:txBody></p:sp>`+
		`</p:spTree></p:cSld></p:notes>`, nsA, nsR, nsP, Esc(text))
}

// relsPathFor returns the member name of the .rels part belonging to part p.
func relsPathFor(p string) string {
	return path.Join(path.Dir(p), "_rels", path.Base(p)+".rels")
}

// Members returns the archive members in their final order.
func (d *Deck) Members() []zipw.Member {
	decl, decoys := d.resolved()
	all := append(append([]Slide{}, decl...), decoys...)

	// ---- presentation.xml -------------------------------------------------------------
	var pres strings.Builder
	pres.WriteString(hdr)
	fmt.Fprintf(&pres, `<p:presentation xmlns:a="%s" xmlns:r="%s" xmlns:p="%s">`, nsA, nsR, nsP)
	if !d.OmitTheme {
		pres.WriteString(`<p:sldMasterIdLst><p:sldMasterId id="2147483648" r:id="rId1"/></p:sldMasterIdLst>`)
	}
	pres.WriteString(`<p:sldIdLst>`)
	for i, s := range decl {
		id := s.SlideID
		if id == 0 {
			id = 256 + i
		}
		fmt.Fprintf(&pres, `<p:sldId id="%d" r:id="%s"/>`, id, s.RID)
	}
	pres.WriteString(`</p:sldIdLst><p:sldSz cx="9144000" cy="6858000"/><p:notesSz cx="6858000" cy="9144000"/></p:presentation>`)

	// ---- presentation.xml.rels --------------------------------------------------------
	var rels strings.Builder
	rels.WriteString(hdr)
	fmt.Fprintf(&rels, `<Relationships xmlns="%s">`, nsRel)
	if !d.OmitTheme {
		fmt.Fprintf(&rels, `<Relationship Id="rId1" Type="%sslideMaster" Target="slideMasters/slideMaster1.xml"/>`, relT)
		fmt.Fprintf(&rels, `<Relationship Id="rId2" Type="%stheme" Target="theme/theme1.xml"/>`, relT)
	}
	order := d.RelOrder
	if order == nil {
		for i := range decl {
			order = append(order, i)
		}
	}
	for _, i := range order {
		fmt.Fprintf(&rels, `<Relationship Id="%s" Type="%sslide" Target="%s"/>`, decl[i].RID, relT, Esc(d.target(decl[i])))
	}
	for _, s := range decoys {
		if s.Related {
			fmt.Fprintf(&rels, `<Relationship Id="%s" Type="%sslide" Target="%s"/>`, s.RID, relT, Esc(d.target(s)))
		}
	}
	rels.WriteString(`</Relationships>`)

	// ---- content types ----------------------------------------------------------------
	var ct strings.Builder
	ct.WriteString(hdr)
	ct.WriteString(`<Types xmlns="http://schemas.openxmlformats.org/package/2006/content-types"><Default Extension="rels" ContentType="application/vnd.openxmlformats-package.relationships+xml"/><Default Extension="xml" ContentType="application/xml"/>`)
	ct.WriteString(`<Override PartName="/ppt/presentation.xml" ContentType="application/vnd.openxmlformats-officedocument.presentationml.presentation.main+xml"/>`)
	for _, s := range all {
		if !s.Absent {
			fmt.Fprintf(&ct, `<Override PartName="/%s" ContentType="application/vnd.openxmlformats-officedocument.presentationml.slide+xml"/>`, Esc(s.Path))
		}
	}
	if !d.OmitTheme {
		ct.WriteString(`<Override PartName="/ppt/slideMasters/slideMaster1.xml" ContentType="application/vnd.openxmlformats-officedocument.presentationml.slideMaster+xml"/>`)
		ct.WriteString(`<Override PartName="/ppt/slideLayouts/slideLayout1.xml" ContentType="application/vnd.openxmlformats-officedocument.presentationml.slideLayout+xml"/>`)
		ct.WriteString(`<Override PartName="/ppt/theme/theme1.xml" ContentType="application/vnd.openxmlformats-officedocument.theme+xml"/>`)
	}
	for i, s := range all {
		if s.Notes != "" && !s.Absent {
			fmt.Fprintf(&ct, `<Override PartName="/ppt/notesSlides/notesSlide%d.xml" ContentType="application/vnd.openxmlformats-officedocument.presentationml.notesSlide+xml"/>`, i+1)
		}
	}
	if !d.OmitDocProps {
		ct.WriteString(`<Override PartName="/docProps/core.xml" ContentType="application/vnd.openxmlformats-package.core-properties+xml"/><Override PartName="/docProps/app.xml" ContentType="application/vnd.openxmlformats-officedocument.extended-properties+xml"/>`)
	}
	ct.WriteString(`</Types>`)

	// ---- root rels --------------------------------------------------------------------
	var root strings.Builder
	root.WriteString(hdr)
	fmt.Fprintf(&root, `<Relationships xmlns="%s"><Relationship Id="rId1" Type="%sofficeDocument" Target="ppt/presentation.xml"/>`, nsRel, relT)
	if !d.OmitDocProps {
		root.WriteString(`<Relationship Id="rId2" Type="http://schemas.openxmlformats.org/package/2006/relationships/metadata/core-properties" Target="docProps/core.xml"/>`)
		fmt.Fprintf(&root, `<Relationship Id="rId3" Type="%sextended-properties" Target="docProps/app.xml"/>`, relT)
	}
	root.WriteString(`</Relationships>`)

	infra := []zipw.Member{
		zipw.M("[Content_Types].xml", ct.String()),
		zipw.M("_rels/.rels", root.String()),
		zipw.M("ppt/presentation.xml", pres.String()),
		zipw.M("ppt/_rels/presentation.xml.rels", rels.String()),
	}
	if !d.OmitTheme {
		infra = append(infra,
			zipw.M("ppt/slideMasters/slideMaster1.xml", hdr+fmt.Sprintf(`<p:sldMaster xmlns:a="%s" xmlns:r="%s" xmlns:p="%s"><p:cSld><p:spTree><p:nvGrpSpPr><p:cNvPr id="1" name=""/><p:cNvGrpSpPr/><p:nvPr/></p:nvGrpSpPr><p:grpSpPr/></p:spTree></p:cSld><p:clrMap bg1="lt1" tx1="dk1" bg2="lt2" tx2="dk2" accent1="accent1" accent2="accent2" accent3="accent3" accent4="accent4" accent5="accent5" accent6="accent6" hlink="hlink" folHlink="folHlink"/><p:sldLayoutIdLst><p:sldLayoutId id="2147483649" r:id="rId1"/></p:sldLayoutIdLst></p:sldMaster>`, nsA, nsR, nsP)),
			zipw.M("ppt/slideMasters/_rels/slideMaster1.xml.rels", hdr+fmt.Sprintf(`<Relationships xmlns="%s"><Relationship Id="rId1" Type="%sslideLayout" Target="../slideLayouts/slideLayout1.xml"/><Relationship Id="rId2" Type="%stheme" Target="../theme/theme1.xml"/></Relationships>`, nsRel, relT, relT)),
			zipw.M("ppt/slideLayouts/slideLayout1.xml", hdr+fmt.Sprintf(`<p:sldLayout xmlns:a="%s" xmlns:r="%s" xmlns:p="%s" type="titleAndContent"><p:cSld name="Title and Content"><p:spTree><p:nvGrpSpPr><p:cNvPr id="1" name=""/><p:cNvGrpSpPr/><p:nvPr/></p:nvGrpSpPr><p:grpSpPr/></p:spTree></p:cSld></p:sldLayout>`, nsA, nsR, nsP)),
			zipw.M("ppt/slideLayouts/_rels/slideLayout1.xml.rels", hdr+fmt.Sprintf(`<Relationships xmlns="%s"><Relationship Id="rId1" Type="%sslideMaster" Target="../slideMasters/slideMaster1.xml"/></Relationships>`, nsRel, relT)),
			zipw.M("ppt/theme/theme1.xml", hdr+fmt.Sprintf(`<a:theme xmlns:a="%s" name="Office"><a:themeElements><a:clrScheme name="x"/><a:fontScheme name="x"/><a:fmtScheme name="x"/></a:themeElements></a:theme>`, nsA)),
		)
	}
	if !d.OmitDocProps {
		infra = append(infra,
			zipw.M("docProps/core.xml", hdr+fmt.Sprintf(`<cp:coreProperties xmlns:cp="http://schemas.openxmlformats.org/package/2006/metadata/core-properties" xmlns:dc="http://purl.org/dc/elements/1.1/" xmlns:dcterms="http://purl.org/dc/terms/"><dc:title>%s</dc:title><dc:creator>%s</dc:creator></cp:coreProperties>`, Esc(d.Title), Esc(d.Author))),
			zipw.M("docProps/app.xml", hdr+fmt.Sprintf(`<Properties xmlns="http://schemas.openxmlformats.org/officeDocument/2006/extended-properties"><Application>verif-pptxw</Application><Slides>%d</Slides></Properties>`, len(decl))),
		)
	}

	// ---- slide members ----------------------------------------------------------------
	group := func(i int, s Slide) []zipw.Member {
		if s.Absent {
			return nil
		}
		ms := []zipw.Member{zipw.M(s.Path, SlideXML(s))}
		var r strings.Builder
		r.WriteString(hdr)
		fmt.Fprintf(&r, `<Relationships xmlns="%s">`, nsRel)
		if !d.OmitTheme {
			fmt.Fprintf(&r, `<Relationship Id="rId1" Type="%sslideLayout" Target="%s"/>`, relT, RelTo(path.Dir(s.Path), "ppt/slideLayouts/slideLayout1.xml"))
		}
		notesPath := fmt.Sprintf("ppt/notesSlides/notesSlide%d.xml", i+1)
		if s.Notes != "" {
			fmt.Fprintf(&r, `<Relationship Id="rId2" Type="%snotesSlide" Target="%s"/>`, relT, RelTo(path.Dir(s.Path), notesPath))
		}
		r.WriteString(`</Relationships>`)
		if s.Notes != "" || (!d.OmitSlideRels && !s.NoRels) {
			ms = append(ms, zipw.M(relsPathFor(s.Path), r.String()))
		}
		if s.Notes != "" {
			ms = append(ms, zipw.M(notesPath, notesXML(s.Notes)))
		}
		return ms
	}
	po := d.PartOrder
	if po == nil {
		for i := range all {
			po = append(po, i)
		}
	}
	var parts []zipw.Member
	for _, i := range po {
		parts = append(parts, group(i, all[i])...)
	}
	if d.PartsFirst {
		return append(parts, infra...)
	}
	return append(infra, parts...)
}

// Bytes serializes the deck.
func (d *Deck) Bytes() []byte { return zipw.Zip(d.Members()) }
