// Package zipw writes ZIP archives with an explicit, caller-controlled member order
// (container formats: DOCX, XLSX, PPTX, ODT, EPUB).
package zipw

import (
	"archive/zip"
	"bytes"
)

// Member is one archive entry, written in slice order.
type Member struct {
	Name  string
	Data  []byte
	Store bool // true: stored (no compression), e.g. the EPUB/ODT mimetype entry
}

// M is shorthand for a deflated text member.
func M(name, data string) Member { return Member{Name: name, Data: []byte(data)} }

// Zip serializes the members in the given order.
func Zip(members []Member) []byte {
	var buf bytes.Buffer
	w := zip.NewWriter(&buf)
	for _, m := range members {
		method := zip.Deflate
		if m.Store {
			method = zip.Store
		}
		f, err := w.CreateHeader(&zip.FileHeader{Name: m.Name, Method: method})
		if err != nil {
			panic(err)
		}
		f.Write(m.Data)
	}
	w.Close()
	return buf.Bytes()
}
