// Package samples builds one small valid document per supported format (and a few PDF variants)
// with the independent writers of internal/gen. Used by the checks that need "a document of every
// format" (C02 base files, C03 operation alphabet, C20 admission).
package samples

import (
	"bytes"
	"fmt"

	"verif/internal/gen/docxw"
	"verif/internal/gen/epubw"
	"verif/internal/gen/odtw"
	"verif/internal/gen/pdfw"
	"verif/internal/gen/pptxw"
	"verif/internal/gen/xlsxw"
)

// PDFDoc is the logical document behind a.pdf: two pages, two left margins and two font sizes that
// occur equally often (ties in frequency-based layout heuristics), a heading-sized line and a list.
func PDFDoc() pdfw.Doc {
	l := func(x, y, size float64, s string) pdfw.Line {
		return pdfw.Line{Font: pdfw.Type1WinAnsi, Text: s, X: x, Y: y, Size: size}
	}
	return pdfw.Doc{Name: "a", Pages: []pdfw.Page{
		{Lines: []pdfw.Line{
			l(72, 720, 18, "Sample Heading One"),
			l(72, 690, 12, "First paragraph line alpha bravo charlie delta echo foxtrot golf."),
			l(72, 676, 12, "Second line of the first paragraph hotel india juliet kilo lima."),
			l(90, 640, 10, "Indented block line mike november oscar papa quebec romeo sierra."),
			l(90, 628, 10, "Indented block second line tango uniform victor whiskey xray."),
			l(72, 590, 12, "- first bullet item of a list"),
			l(72, 576, 12, "- second bullet item of a list"),
			l(72, 540, 12, "Hello"),
			l(105, 540, 12, "World"),
		}},
		{Lines: []pdfw.Line{
			l(72, 720, 12, "Second page text yankee zulu one two three four five six seven."),
			l(300, 700, 10, "Right column fragment eight nine ten eleven twelve."),
			l(72, 680, 10, "Another left line thirteen fourteen fifteen sixteen."),
		}},
	}}
}

// PDF variants.
func PDF() []byte { return pdfw.Write(PDFDoc(), pdfw.Layout{}).Bytes }

// PDFPending: the page content ends with dangling operands (no operator follows them).
func PDFPending() []byte {
	d := pdfw.Doc{Name: "pending", Pages: []pdfw.Page{{Lines: []pdfw.Line{{Font: pdfw.Type1WinAnsi, Text: "pending operands page", X: 72, Y: 700, Size: 12}},
		ExtraTokens: []string{"1", "2", "3"}}}}
	return pdfw.Write(d, pdfw.Layout{}).Bytes
}

// PDFBroken: the page content cannot be tokenized (dictionary opened, never closed).
func PDFBroken() []byte {
	d := pdfw.Doc{Name: "broken", Pages: []pdfw.Page{{Lines: []pdfw.Line{{Font: pdfw.Type1WinAnsi, Text: "broken content page", X: 72, Y: 700, Size: 12}},
		ExtraTokens: []string{"4", "5", "<<"}}}}
	return pdfw.Write(d, pdfw.Layout{}).Bytes
}

// PDFTies: frequency ties everywhere — two left margins, two font sizes, two alignments, each
// used by the same number of lines (frequency-based heuristics must break such ties deterministically).
func PDFTies() []byte {
	l := func(x, y, size float64, s string) pdfw.Line {
		return pdfw.Line{Font: pdfw.Type1WinAnsi, Text: s, X: x, Y: y, Size: size}
	}
	d := pdfw.Doc{Name: "ties", Pages: []pdfw.Page{{Lines: []pdfw.Line{
		l(72, 720, 10, "Small block first line with enough words to look like body text here."),
		l(72, 708, 10, "Small block second line with enough words to look like body text too."),
		l(120, 660, 14, "Large block first line also long enough to be a paragraph."),
		l(120, 643, 14, "Large block second line also long enough to be a paragraph."),
	}}, {Lines: []pdfw.Line{
		l(72, 720, 14, "Page two large line one with several words in it."),
		l(72, 703, 14, "Page two large line two with several words in it."),
		l(150, 650, 10, "Page two small indented line one with several words."),
		l(150, 638, 10, "Page two small indented line two with several words."),
	}}, {Lines: []pdfw.Line{
		l(72, 720, 16, "Short Title"),
		l(72, 660, 10, "One single body line that is long enough to be ordinary paragraph text, not a title."),
	}}, {Lines: []pdfw.Line{
		l(200, 720, 9, "Tiny Centered Caption"),
		l(72, 660, 18, "INTRODUCTION"),
	}}}}
	return pdfw.Write(d, pdfw.Layout{}).Bytes
}

// PDFWidths: a Standard-14 base font (Helvetica) that brings its own /Widths array.
func PDFWidths() []byte {
	d := pdfw.Doc{Name: "widths", Pages: []pdfw.Page{{Lines: []pdfw.Line{
		{Font: pdfw.Type1Widths, Text: "Wide metrics line one", X: 72, Y: 700, Size: 12},
		{Font: pdfw.Type1Widths, Text: "AVA", X: 72, Y: 680, Size: 12},
		{Font: pdfw.Type1Widths, Text: "tail", X: 190, Y: 680, Size: 12},
	}}}}
	return pdfw.Write(d, pdfw.Layout{}).Bytes
}

// PDFForms: Form XObjects with their own resources; the name Fm1 means one form at page level and
// another one inside Fm0 (name shadowing), and a form is invoked on two pages.
func PDFForms() []byte {
	l := func(f pdfw.FontKind, y float64, s string) pdfw.Line {
		return pdfw.Line{Font: f, Text: s, X: 72, Y: y, Size: 12}
	}
	d := pdfw.Doc{Name: "forms", Pages: []pdfw.Page{
		{Lines: []pdfw.Line{l(pdfw.Type1WinAnsi, 700, "outer page text one")},
			Forms: []pdfw.Form{
				{Name: "Fm0", Lines: []pdfw.Line{l(pdfw.Type1WinAnsi, 650, "middle form text")},
					Forms: []pdfw.Form{{Name: "Fm1", Lines: []pdfw.Line{l(pdfw.TrueTypeMacRoman, 620, "inner nested text")}}}},
				{Name: "Fm1", Lines: []pdfw.Line{l(pdfw.Type1WinAnsi, 590, "page level second form")}},
			}},
		// here the shadowed name is used at page level BEFORE the form that re-binds it in its own scope
		{Lines: []pdfw.Line{l(pdfw.TrueTypeMacRoman, 700, "second page own text")},
			Forms: []pdfw.Form{
				{Name: "Fm1", Matrix: [6]float64{1, 0, 0, 1, 10, -30}, Lines: []pdfw.Line{l(pdfw.Type1WinAnsi, 650, "second page form text")}},
				{Name: "Fm0", Lines: []pdfw.Line{l(pdfw.Type1WinAnsi, 600, "rebinding form text")},
					Forms: []pdfw.Form{{Name: "Fm1", Lines: []pdfw.Line{l(pdfw.Type1WinAnsi, 570, "shadow of fm1 text")}}}},
			}},
	}}
	return pdfw.Write(d, pdfw.Layout{PerPageFonts: true}).Bytes
}

// PDFBadKid: a.pdf whose second page-tree kid is not a page node (traversal fails after the first page).
func PDFBadKid() []byte {
	b := append([]byte{}, PDF()...)
	first := bytes.Index(b, []byte("/Type /Page /"))
	if first >= 0 {
		if second := bytes.Index(b[first+1:], []byte("/Type /Page /")); second >= 0 {
			copy(b[first+1+second:], []byte("/Type /Pagx /"))
		}
	}
	return b
}

// PDFHeaderFooter: three pages with a running header, a "Page n" footer and unique body lines.
func PDFHeaderFooter() []byte {
	var d pdfw.Doc
	d.Name = "hf"
	for p := 1; p <= 3; p++ {
		d.Pages = append(d.Pages, pdfw.Page{Lines: []pdfw.Line{
			{Font: pdfw.Type1WinAnsi, Text: "Quarterly Report Draft", X: 72, Y: 760, Size: 10},
			{Font: pdfw.Type1WinAnsi, Text: "Confidential Internal", X: 400, Y: 760, Size: 10},
			{Font: pdfw.Type1WinAnsi, Text: fmt.Sprintf("Body paragraph number %d with its own words alpha%d beta%d.", p, p, p), X: 72, Y: 600, Size: 12},
			{Font: pdfw.Type1WinAnsi, Text: fmt.Sprintf("Second body line of page %d gamma%d delta%d.", p, p, p), X: 72, Y: 586, Size: 12},
			{Font: pdfw.Type1WinAnsi, Text: fmt.Sprintf("Page %d", p), X: 72, Y: 30, Size: 10},
			{Font: pdfw.Type1WinAnsi, Text: "Acme Corp", X: 400, Y: 30, Size: 10},
		}})
	}
	return pdfw.Write(d, pdfw.Layout{}).Bytes
}

// PDFSameBaseFont: one page with three font resources that share /BaseFont /Helvetica but decode differently
// (WinAnsi, WinAnsi + /Differences, WinAnsi + own /Widths); the codes 65/66 tell them apart.
func PDFSameBaseFont() []byte {
	d := pdfw.Doc{Name: "samebase", Pages: []pdfw.Page{{Lines: []pdfw.Line{
		{Font: pdfw.Type1WinAnsi, Text: "AB plain letters", X: 72, Y: 700, Size: 12},
		{Font: pdfw.Type1Differences, Text: "\u20ac\u2022 remapped letters", X: 72, Y: 680, Size: 12},
		{Font: pdfw.Type1Widths, Text: "AB wide letters", X: 72, Y: 660, Size: 12},
		{Font: pdfw.Type1WinAnsi, Text: "tail", X: 330, Y: 660, Size: 12},
	}}}}
	return pdfw.Write(d, pdfw.Layout{}).Bytes
}

// PDFStream: same logical document as a.pdf with xref stream, object streams and Flate.
// PDFHex: the content streams are ASCIIHex-encoded (a filter whose decoder works on the encoded bytes directly),
// two content streams per page.
func PDFHex() []byte {
	return pdfw.Write(PDFDoc(), pdfw.Layout{Filter: "AHx", Split: 2}).Bytes
}

// PDFRev2: two revisions chained by /Prev; the update replaces an existing object (the first content stream of
// page 1, whose revision-1 version shows stale text) without adding object numbers, so both trailers declare one /Size.
func PDFRev2() []byte {
	return pdfw.Write(PDFDoc(), pdfw.Layout{Revisions: 2}).Bytes
}

func PDFStream() []byte {
	return pdfw.Write(PDFDoc(), pdfw.Layout{XRef: "stream", ObjStm: "all", Filter: "Fl"}).Bytes
}

func DOCX() []byte {
	doc := docxw.Doc{Body: []docxw.Block{
		docxw.Para{Style: "Heading1", Content: []docxw.Inline{docxw.R(docxw.T("Docx Title"))}},
		docxw.P("docx paragraph one with several words"),
		docxw.Para{NumID: 1, ILvl: 0, Content: []docxw.Inline{docxw.R(docxw.T("docx item one"))}},
		docxw.Para{NumID: 1, ILvl: 0, Content: []docxw.Inline{docxw.R(docxw.T("docx item two"))}},
		docxw.Table{Cols: 2, Rows: []docxw.Row{{Cells: []docxw.Cell{docxw.C("dh1"), docxw.C("dh2")}}, {Cells: []docxw.Cell{docxw.C("dc1"), docxw.C("dc2")}}}},
		docxw.Para{Style: "Heading2", Content: []docxw.Inline{docxw.R(docxw.T("Docx Section"))}},
		docxw.P("docx closing paragraph"),
	}}
	return docxw.Build(doc, docxw.Opts{Styles: docxw.DefaultStyles(), Nums: docxw.DefaultNums(), Title: "Docx Sample"})
}

func ODT() []byte {
	doc := odtw.Doc{Body: []odtw.Block{
		odtw.Heading{Style: "Heading_20_1", Level: 1, Content: []odtw.Inline{odtw.Text("Odt Title")}},
		odtw.P("odt paragraph one with several words"),
		odtw.List{Style: "L1", Items: []odtw.Item{{Blocks: []odtw.Block{odtw.P("odt item one")}}, {Blocks: []odtw.Block{odtw.P("odt item two")}}}},
		odtw.Table{Cols: 2, Rows: []odtw.Row{{Cells: []odtw.Cell{odtw.C("oh1"), odtw.C("oh2")}}, {Cells: []odtw.Cell{odtw.C("oc1"), odtw.C("oc2")}}}},
		odtw.P("odt closing paragraph"),
	}}
	return odtw.Build(doc, odtw.Opts{Styles: odtw.DefaultStyles(), ListStyles: odtw.DefaultListStyles(), Title: "Odt Sample"})
}

func XLSX() []byte {
	wb := xlsxw.Workbook{Deflate: true, Sheets: []xlsxw.Sheet{
		{Name: "First", Cells: []xlsxw.Cell{{Ref: "A1", Kind: xlsxw.Shared, Value: "name"}, {Ref: "B1", Kind: xlsxw.Shared, Value: "qty"},
			{Ref: "A2", Kind: xlsxw.Inline, Value: "apple"}, {Ref: "B2", Kind: xlsxw.Number, Value: "3"},
			{Ref: "A3", Kind: xlsxw.Shared, Value: "pear"}, {Ref: "B3", Kind: xlsxw.Bool, Value: "TRUE"}}},
		{Name: "Second", Cells: []xlsxw.Cell{{Ref: "A1", Kind: xlsxw.Shared, Value: "other sheet"}, {Ref: "C2", Kind: xlsxw.FormulaStr, Value: "cached"}}},
	}}
	return wb.Bytes()
}

func PPTX() []byte {
	d := pptxw.Deck{Title: "Pptx Sample", Slides: []pptxw.Slide{
		{Title: "Slide One", Paras: []pptxw.Para{{Text: "first slide body"}, {Text: "bullet a", Level: 0, Bullet: "char"}, {Text: "bullet b", Level: 1, Bullet: "char"}}, Notes: "notes one"},
		{Title: "Slide Two", Paras: []pptxw.Para{{Text: "second slide body"}}, Table: [][]string{{"ph1", "ph2"}, {"pc1", "pc2"}}},
	}}
	return d.Bytes()
}

func epub(version int) []byte {
	b := epubw.Book{Version: version, Title: "Epub Sample", Author: "Verif", Language: "en", Identifier: "urn:uuid:verif-sample",
		Chapters: []epubw.Chapter{
			{ID: "c1", Title: "Chapter One", Body: "<p>epub first chapter paragraph</p><ul><li>e item one</li><li>e item two</li></ul>"},
			{ID: "c2", Title: "Chapter Two", Body: "<p>epub second chapter paragraph</p><table><tr><th>eh1</th><th>eh2</th></tr><tr><td>ec1</td><td>ec2</td></tr></table>"},
		}}
	return b.Bytes()
}

func EPUB3() []byte { return epub(3) }
func EPUB2() []byte { return epub(2) }

func HTML() []byte {
	return []byte(`<!DOCTYPE html>
<html><head><title>Html Sample</title><style>p{color:red}</style></head>
<body><nav><ul><li><a href="/a">nav one</a></li><li><a href="/b">nav two</a></li></ul></nav>
<main><h1>Html Title</h1><p>html paragraph one with &amp; entity</p>
<ul><li>h item one</li><li>h item two<ul><li>h nested</li></ul></li></ul>
<table><thead><tr><th>hh1</th><th>hh2</th></tr></thead><tbody><tr><td>hc1</td><td>hc2</td></tr></tbody></table>
<pre><code>code line</code></pre><blockquote>quoted text</blockquote></main>
<footer><p>footer text</p></footer><script>var x = "script text";</script></body></html>
`)
}

// Named lists every sample with its file name (extension = true format).
func Named() []struct {
	Name string
	Data []byte
} {
	return []struct {
		Name string
		Data []byte
	}{
		{"a.pdf", PDF()}, {"pending.pdf", PDFPending()}, {"broken.pdf", PDFBroken()}, {"stream.pdf", PDFStream()}, {"ties.pdf", PDFTies()}, {"widths.pdf", PDFWidths()}, {"forms.pdf", PDFForms()}, {"badkid.pdf", PDFBadKid()}, {"hf.pdf", PDFHeaderFooter()}, {"samebase.pdf", PDFSameBaseFont()}, {"hex.pdf", PDFHex()}, {"rev2.pdf", PDFRev2()},
		{"a.docx", DOCX()}, {"a.odt", ODT()}, {"a.xlsx", XLSX()}, {"a.pptx", PPTX()}, {"a.epub", EPUB3()}, {"b.epub", EPUB2()}, {"a.html", HTML()},
	}
}
