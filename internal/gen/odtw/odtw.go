// Package odtw is an independent, minimal OpenDocument Text (ODT, ODF 1.2) writer for the
// verification checks: logical document in, valid package bytes out. The logical input (blocks in
// body order, mixed inline content in source order, heading levels, nested lists, table grid with
// spans and covered cells) is what a conforming reader has to present, so a check derives its
// expectation from the same Doc value it hands to Build. The writer never consults tabula.
//
// Package layout (ODF 1.2 part 3):
//
//	mimetype                 first member, STORED, "application/vnd.oasis.opendocument.text"
//	META-INF/manifest.xml    always
//	content.xml              always (office:automatic-styles from Opts.AutoStyles/AutoListStyles)
//	styles.xml               unless Opts.NoStylesPart (office:styles from Opts.Styles/ListStyles;
//	                         office:master-styles with the header / footer of Doc)
//	meta.xml                 iff Opts.Title != ""
//
// Typical use:
//
//	doc := odtw.Doc{Body: []odtw.Block{
//	    odtw.Heading{Style: "Heading_20_1", Level: 1, Content: []odtw.Inline{odtw.Text("Title")}},
//	    odtw.P("plain ", "text"),
//	    odtw.List{Style: "L1", Items: []odtw.Item{{Blocks: []odtw.Block{odtw.P("item")}}}},
//	}}
//	data := odtw.Build(doc, odtw.Opts{Styles: odtw.DefaultStyles(), ListStyles: odtw.DefaultListStyles()})
package odtw

import (
	"bytes"
	"encoding/xml"
	"fmt"
	"strings"

	"verif/internal/gen/zipw"
)

// ---- logical model ------------------------------------------------------------------------

// Doc is a logical document. Header / Footer live in the "Standard" master page of styles.xml.
type Doc struct {
	Body   []Block
	Header []Para // nil: none
	Footer []Para // nil: none
}

// Block is a body-level element: Para, Heading, List, Table or Section.
type Block interface{ isBlock() }

// Para is text:p.
type Para struct {
	Style   string
	Content []Inline
}

// Heading is text:h. Level 0 omits text:outline-level (ODF default: 1).
type Heading struct {
	Style   string
	Level   int
	Content []Inline
}

// List is text:list; nesting = a List among an Item's Blocks.
type List struct {
	Style string // text:style-name ("" on nested lists is usual)
	Items []Item
}

// Item is text:list-item; Blocks are Para / Heading / List in source order.
type Item struct{ Blocks []Block }

// Table is table:table with Cols columns.
type Table struct {
	Name string
	Cols int
	Rows []Row
	// ColDecl, when non-nil, spells the column declarations: one table:table-column per entry n,
	// with table:number-columns-repeated="n" when n > 1 (the entries should add up to Cols).
	// nil: a single declaration repeated Cols times.
	ColDecl []int
}

// Row is table:table-row.
type Row struct{ Cells []Cell }

// Cell is table:table-cell, or table:covered-table-cell when Covered.
type Cell struct {
	ColSpan, RowSpan int // 0/1 = none
	Covered          bool
	Blocks           []Block
}

// Section is text:section around Blocks.
type Section struct {
	Name   string
	Blocks []Block
}

func (Para) isBlock()    {}
func (Heading) isBlock() {}
func (List) isBlock()    {}
func (Table) isBlock()   {}
func (Section) isBlock() {}

// Inline is mixed paragraph content: Text, Span, S, Tab, LineBreak, A, Bookmark.
type Inline interface{ isInline() }

// Text is character data.
type Text string

// Span is text:span (may nest).
type Span struct {
	Style   string
	Content []Inline
}

// S is text:s (N spaces; 0/1 = one, attribute omitted).
type S struct{ N int }

// Tab is text:tab. LineBreak is text:line-break.
type Tab struct{}
type LineBreak struct{}

// A is text:a (hyperlink) around inline content.
type A struct {
	Href    string
	Content []Inline
}

// Bookmark is an empty text:bookmark.
type Bookmark struct{ Name string }

func (Text) isInline()      {}
func (Span) isInline()      {}
func (S) isInline()         {}
func (Tab) isInline()       {}
func (LineBreak) isInline() {}
func (A) isInline()         {}
func (Bookmark) isInline()  {}

// P is a plain paragraph; several strings become adjacent character data.
func P(texts ...string) Para {
	var p Para
	for _, t := range texts {
		p.Content = append(p.Content, Text(t))
	}
	return p
}

// C is a cell with one plain paragraph per string.
func C(texts ...string) Cell {
	var c Cell
	for _, t := range texts {
		c.Blocks = append(c.Blocks, P(t))
	}
	return c
}

// ---- optional parts -----------------------------------------------------------------------

// Style is a style:style.
type Style struct {
	Name         string // style:name (encoded, e.g. "Heading_20_1")
	Display      string // style:display-name
	Family       string // default "paragraph"
	Parent       string
	Class        string
	OutlineLevel int // style:default-outline-level; 0 = none
	Bold, Italic bool
	SizePt       int
}

// ListLevel is one level of a list style.
type ListLevel struct {
	Number bool   // text:list-level-style-number (else bullet)
	Format string // num-format, default "1"
	Char   string // bullet char, default "•"
	Start  int    // text:start-value of a number level; 0 = attribute omitted (1)
}

// ListStyle is text:list-style.
type ListStyle struct {
	Name   string
	Levels []ListLevel
}

// Opts selects the optional parts.
type Opts struct {
	Styles         []Style     // office:styles of styles.xml
	ListStyles     []ListStyle // office:styles of styles.xml
	AutoStyles     []Style     // office:automatic-styles of content.xml
	AutoListStyles []ListStyle // office:automatic-styles of content.xml
	// StylesAutoStyles / StylesAutoListStyles go into office:automatic-styles of styles.xml (the
	// scope of headers / footers). Their names may collide with content.xml's automatic styles:
	// the two parts number their automatic styles independently.
	StylesAutoStyles     []Style
	StylesAutoListStyles []ListStyle
	NoStylesPart         bool   // omit styles.xml (then header / footer cannot be written)
	Title                string // "" = no meta.xml
	Extra                []zipw.Member
}

// DefaultStyles returns Standard, Heading, Heading_20_1..6, Text_20_body, List_20_Paragraph.
func DefaultStyles() []Style {
	st := []Style{
		{Name: "Standard", Class: "text"},
		{Name: "Heading", Parent: "Standard", Class: "text", SizePt: 14},
		{Name: "Text_20_body", Display: "Text body", Parent: "Standard", Class: "text"},
	}
	sizes := []int{18, 16, 14, 13, 12, 11}
	for i := 1; i <= 6; i++ {
		st = append(st, Style{Name: fmt.Sprintf("Heading_20_%d", i), Display: fmt.Sprintf("Heading %d", i), Parent: "Heading", Class: "text", OutlineLevel: i, Bold: true, SizePt: sizes[i-1]})
	}
	return st
}

// DefaultListStyles returns L1 = three bullet levels, L2 = three numbered levels.
func DefaultListStyles() []ListStyle {
	return []ListStyle{
		{Name: "L1", Levels: []ListLevel{{}, {Char: "◦"}, {Char: "▪"}}},
		{Name: "L2", Levels: []ListLevel{{Number: true}, {Number: true, Format: "a"}, {Number: true, Format: "i"}}},
	}
}

// ---- serialization ------------------------------------------------------------------------

const (
	Mimetype = "application/vnd.oasis.opendocument.text"
	hdr      = `<?xml version="1.0" encoding="UTF-8"?>` + "\n"
	nsDecl   = ` xmlns:office="urn:oasis:names:tc:opendocument:xmlns:office:1.0"` +
		` xmlns:style="urn:oasis:names:tc:opendocument:xmlns:style:1.0"` +
		` xmlns:text="urn:oasis:names:tc:opendocument:xmlns:text:1.0"` +
		` xmlns:table="urn:oasis:names:tc:opendocument:xmlns:table:1.0"` +
		` xmlns:fo="urn:oasis:names:tc:opendocument:xmlns:xsl-fo-compatible:1.0"` +
		` xmlns:xlink="http://www.w3.org/1999/xlink"` +
		` xmlns:dc="http://purl.org/dc/elements/1.1/"` +
		` xmlns:meta="urn:oasis:names:tc:opendocument:xmlns:meta:1.0"` +
		` xmlns:svg="urn:oasis:names:tc:opendocument:xmlns:svg-compatible:1.0"` +
		` office:version="1.2"`
)

func esc(s string) string {
	var b bytes.Buffer
	xml.EscapeText(&b, []byte(s))
	return b.String()
}

type writer struct {
	b   strings.Builder
	tbl int
	sec int
}

func (w *writer) f(format string, a ...interface{}) { fmt.Fprintf(&w.b, format, a...) }

func (w *writer) inlines(in []Inline) {
	for _, x := range in {
		switch v := x.(type) {
		case Text:
			w.b.WriteString(esc(string(v)))
		case Span:
			if v.Style != "" {
				w.f(`<text:span text:style-name="%s">`, esc(v.Style))
			} else {
				w.b.WriteString(`<text:span>`)
			}
			w.inlines(v.Content)
			w.b.WriteString(`</text:span>`)
		case S:
			if v.N > 1 {
				w.f(`<text:s text:c="%d"/>`, v.N)
			} else {
				w.b.WriteString(`<text:s/>`)
			}
		case Tab:
			w.b.WriteString(`<text:tab/>`)
		case LineBreak:
			w.b.WriteString(`<text:line-break/>`)
		case A:
			href := v.Href
			if href == "" {
				href = "http://example.com/"
			}
			w.f(`<text:a xlink:type="simple" xlink:href="%s">`, esc(href))
			w.inlines(v.Content)
			w.b.WriteString(`</text:a>`)
		case Bookmark:
			w.f(`<text:bookmark text:name="%s"/>`, esc(v.Name))
		}
	}
}

func styleAttr(s string) string {
	if s == "" {
		return ""
	}
	return fmt.Sprintf(` text:style-name="%s"`, esc(s))
}

func (w *writer) para(p Para) {
	w.f(`<text:p%s>`, styleAttr(p.Style))
	w.inlines(p.Content)
	w.b.WriteString(`</text:p>`)
}

func (w *writer) blocks(bs []Block) {
	for _, b := range bs {
		switch x := b.(type) {
		case Para:
			w.para(x)
		case Heading:
			w.f(`<text:h%s`, styleAttr(x.Style))
			if x.Level > 0 {
				w.f(` text:outline-level="%d"`, x.Level)
			}
			w.b.WriteString(`>`)
			w.inlines(x.Content)
			w.b.WriteString(`</text:h>`)
		case List:
			w.f(`<text:list%s>`, styleAttr(x.Style))
			for _, it := range x.Items {
				w.b.WriteString(`<text:list-item>`)
				w.blocks(it.Blocks)
				w.b.WriteString(`</text:list-item>`)
			}
			w.b.WriteString(`</text:list>`)
		case Table:
			w.tbl++
			name := x.Name
			if name == "" {
				name = fmt.Sprintf("Table%d", w.tbl)
			}
			w.f(`<table:table table:name="%s">`, esc(name))
			decl := x.ColDecl
			if decl == nil {
				decl = []int{x.Cols}
			}
			for _, n := range decl {
				if n > 1 {
					w.f(`<table:table-column table:number-columns-repeated="%d"/>`, n)
				} else {
					w.b.WriteString(`<table:table-column/>`)
				}
			}
			for _, r := range x.Rows {
				w.b.WriteString(`<table:table-row>`)
				for _, c := range r.Cells {
					if c.Covered {
						w.b.WriteString(`<table:covered-table-cell/>`)
						continue
					}
					w.b.WriteString(`<table:table-cell office:value-type="string"`)
					if c.ColSpan > 1 {
						w.f(` table:number-columns-spanned="%d"`, c.ColSpan)
					}
					if c.RowSpan > 1 {
						w.f(` table:number-rows-spanned="%d"`, c.RowSpan)
					}
					w.b.WriteString(`>`)
					w.blocks(c.Blocks)
					if len(c.Blocks) == 0 {
						w.b.WriteString(`<text:p/>`)
					}
					w.b.WriteString(`</table:table-cell>`)
				}
				w.b.WriteString(`</table:table-row>`)
			}
			w.b.WriteString(`</table:table>`)
		case Section:
			w.sec++
			name := x.Name
			if name == "" {
				name = fmt.Sprintf("Section%d", w.sec)
			}
			w.f(`<text:section text:name="%s">`, esc(name))
			w.blocks(x.Blocks)
			w.b.WriteString(`</text:section>`)
		}
	}
}

func writeStyles(b *strings.Builder, st []Style, ls []ListStyle) {
	for _, s := range st {
		fam := s.Family
		if fam == "" {
			fam = "paragraph"
		}
		fmt.Fprintf(b, `<style:style style:name="%s" style:family="%s"`, esc(s.Name), fam)
		if s.Display != "" {
			fmt.Fprintf(b, ` style:display-name="%s"`, esc(s.Display))
		}
		if s.Parent != "" {
			fmt.Fprintf(b, ` style:parent-style-name="%s"`, esc(s.Parent))
		}
		if s.Class != "" {
			fmt.Fprintf(b, ` style:class="%s"`, esc(s.Class))
		}
		if s.OutlineLevel > 0 {
			fmt.Fprintf(b, ` style:default-outline-level="%d"`, s.OutlineLevel)
		}
		if s.Bold || s.Italic || s.SizePt > 0 {
			b.WriteString(`><style:text-properties`)
			if s.SizePt > 0 {
				fmt.Fprintf(b, ` fo:font-size="%dpt"`, s.SizePt)
			}
			if s.Bold {
				b.WriteString(` fo:font-weight="bold"`)
			}
			if s.Italic {
				b.WriteString(` fo:font-style="italic"`)
			}
			b.WriteString(`/></style:style>`)
		} else {
			b.WriteString(`/>`)
		}
	}
	for _, l := range ls {
		fmt.Fprintf(b, `<text:list-style style:name="%s">`, esc(l.Name))
		for i, lv := range l.Levels {
			if lv.Number {
				f := lv.Format
				if f == "" {
					f = "1"
				}
				fmt.Fprintf(b, `<text:list-level-style-number text:level="%d" style:num-suffix="." style:num-format="%s"`, i+1, esc(f))
				if lv.Start > 0 {
					fmt.Fprintf(b, ` text:start-value="%d"`, lv.Start)
				}
				b.WriteString(`/>`)
			} else {
				c := lv.Char
				if c == "" {
					c = "•"
				}
				fmt.Fprintf(b, `<text:list-level-style-bullet text:level="%d" text:bullet-char="%s"/>`, i+1, esc(c))
			}
		}
		b.WriteString(`</text:list-style>`)
	}
}

// Members returns the ZIP members (mimetype first and stored).
func Members(doc Doc, o Opts) []zipw.Member {
	w := &writer{}
	w.b.WriteString(hdr)
	w.f(`<office:document-content%s><office:scripts/><office:font-face-decls/><office:automatic-styles>`, nsDecl)
	writeStyles(&w.b, o.AutoStyles, o.AutoListStyles)
	w.b.WriteString(`</office:automatic-styles><office:body><office:text>`)
	w.blocks(doc.Body)
	w.b.WriteString(`</office:text></office:body></office:document-content>`)

	var mf strings.Builder
	mf.WriteString(hdr)
	mf.WriteString(`<manifest:manifest xmlns:manifest="urn:oasis:names:tc:opendocument:xmlns:manifest:1.0" manifest:version="1.2">`)
	entry := func(path, typ string) {
		fmt.Fprintf(&mf, `<manifest:file-entry manifest:full-path="%s" manifest:media-type="%s"/>`, path, typ)
	}
	entry("/", Mimetype)
	entry("content.xml", "text/xml")

	ms := []zipw.Member{{Name: "mimetype", Data: []byte(Mimetype), Store: true}, {}}
	ms = append(ms, zipw.M("content.xml", w.b.String()))
	if !o.NoStylesPart {
		var s strings.Builder
		s.WriteString(hdr)
		fmt.Fprintf(&s, `<office:document-styles%s><office:font-face-decls/><office:styles>`, nsDecl)
		writeStyles(&s, o.Styles, o.ListStyles)
		s.WriteString(`</office:styles><office:automatic-styles>`)
		writeStyles(&s, o.StylesAutoStyles, o.StylesAutoListStyles)
		s.WriteString(`<style:page-layout style:name="pm1"><style:page-layout-properties fo:page-width="21cm" fo:page-height="29.7cm" fo:margin-top="2cm" fo:margin-bottom="2cm" fo:margin-left="2cm" fo:margin-right="2cm"/></style:page-layout></office:automatic-styles>`)
		s.WriteString(`<office:master-styles><style:master-page style:name="Standard" style:page-layout-name="pm1">`)
		if doc.Header != nil {
			hw := &writer{}
			for _, p := range doc.Header {
				hw.para(p)
			}
			s.WriteString(`<style:header>` + hw.b.String() + `</style:header>`)
		}
		if doc.Footer != nil {
			fw := &writer{}
			for _, p := range doc.Footer {
				fw.para(p)
			}
			s.WriteString(`<style:footer>` + fw.b.String() + `</style:footer>`)
		}
		s.WriteString(`</style:master-page></office:master-styles></office:document-styles>`)
		entry("styles.xml", "text/xml")
		ms = append(ms, zipw.M("styles.xml", s.String()))
	}
	if o.Title != "" {
		entry("meta.xml", "text/xml")
		ms = append(ms, zipw.M("meta.xml", hdr+`<office:document-meta`+nsDecl+`><office:meta><dc:title>`+esc(o.Title)+`</dc:title></office:meta></office:document-meta>`))
	}
	mf.WriteString(`</manifest:manifest>`)
	ms[1] = zipw.M("META-INF/manifest.xml", mf.String())
	return append(ms, o.Extra...)
}

// Build serializes the document to ODT package bytes.
func Build(doc Doc, o Opts) []byte { return zipw.Zip(Members(doc, o)) }
