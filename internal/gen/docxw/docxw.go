// Package docxw is an independent, minimal WordprocessingML (DOCX) writer for the verification
// checks: logical document in, valid OPC package bytes out. The logical input (blocks in body
// order, inline content in run order, heading / list / table structure) is what a conforming
// reader has to present, so a check derives its expectation from the same Doc value it hands to
// Build. The writer never consults tabula; it only uses encoding/xml escaping and zipw.
//
// Package layout (ECMA-376 part 1 + OPC, as far as Word / LibreOffice require it):
//
//	[Content_Types].xml                 always
//	_rels/.rels                         always (officeDocument -> word/document.xml)
//	word/document.xml                   always
//	word/_rels/document.xml.rels        always (styles / numbering / header / footer / hyperlinks)
//	word/styles.xml                     iff Opts.Styles != nil
//	word/numbering.xml                  iff Opts.Nums != nil
//	word/header1.xml, word/footer1.xml  iff Doc.Header / Doc.Footer != nil (referenced from w:sectPr)
//	docProps/core.xml                   iff Opts.Title != ""
//
// Typical use:
//
//	doc := docxw.Doc{Body: []docxw.Block{
//	    docxw.Para{Style: "Heading1", Content: []docxw.Inline{docxw.R(docxw.T("Title"))}},
//	    docxw.P("plain text"),
//	    docxw.Table{Cols: 2, Rows: []docxw.Row{{Cells: []docxw.Cell{docxw.C("a"), docxw.C("b")}}}},
//	}}
//	data := docxw.Build(doc, docxw.Opts{Styles: docxw.DefaultStyles(), Nums: docxw.DefaultNums()})
//
// Members(doc, opts) returns the ZIP members instead (callers that permute / add members).
package docxw

import (
	"bytes"
	"encoding/xml"
	"fmt"
	"sort"
	"strings"

	"verif/internal/gen/zipw"
)

// ---- logical model ------------------------------------------------------------------------

// Doc is a logical document.
type Doc struct {
	Body   []Block
	Header []Para // nil: no header part
	Footer []Para // nil: no footer part
}

// Block is a body-level (or cell-level) element: Para, Table or SdtBlock.
type Block interface{ isBlock() }

// Para is a paragraph (w:p).
type Para struct {
	Style   string   // w:pStyle (a style id); "" = none
	Outline int      // direct w:outlineLvl + 1 (1 -> w:val="0"); 0 = none
	NumID   int      // w:numPr/w:numId; 0 = not a list item
	ILvl    int      // w:numPr/w:ilvl
	Content []Inline // in source order
}

// Table is a table (w:tbl) with Cols grid columns.
type Table struct {
	Cols  int
	Rows  []Row
	Style string // w:tblStyle (a table style id); "" = none
}

// Row is a table row (w:tr).
type Row struct {
	Header bool // w:tblHeader
	Cells  []Cell
}

// VMerge values for Cell.VMerge.
const (
	VMergeNone     = ""
	VMergeRestart  = "restart"  // first cell of a vertically merged group
	VMergeContinue = "continue" // <w:vMerge/> : continuation cell
)

// Cell is a table cell (w:tc). A cell without content gets the mandatory empty paragraph.
type Cell struct {
	Span   int     // w:gridSpan (0/1 = none)
	VMerge string  // VMergeNone / VMergeRestart / VMergeContinue
	Blocks []Block // paragraphs (and nested tables) of the cell
}

// SdtBlock is a block-level content control (w:sdt/w:sdtContent) around Blocks.
type SdtBlock struct{ Blocks []Block }

func (Para) isBlock()     {}
func (Table) isBlock()    {}
func (SdtBlock) isBlock() {}

// Inline is a paragraph-level inline element: Run, Hyperlink, Ins, Del, Sdt, SmartTag, Bookmark.
type Inline interface{ isInline() }

// Run is a text run (w:r).
type Run struct {
	Bold, Italic bool
	Items        []Item
}

// Hyperlink is w:hyperlink (internal anchor if Anchor != "", else an external relationship).
type Hyperlink struct {
	Anchor string
	URL    string
	Runs   []Run
}

// Ins is a tracked insertion (w:ins); its runs are part of the current document text.
type Ins struct{ Runs []Run }

// Del is a tracked deletion (w:del, runs written with w:delText); NOT part of the document text.
type Del struct{ Runs []Run }

// Sdt is an inline content control (w:sdt/w:sdtContent).
type Sdt struct{ Runs []Run }

// SmartTag is w:smartTag around runs.
type SmartTag struct{ Runs []Run }

// Bookmark is an empty w:bookmarkStart/w:bookmarkEnd pair (no text).
type Bookmark struct{ Name string }

func (Run) isInline()       {}
func (Hyperlink) isInline() {}
func (Ins) isInline()       {}
func (Del) isInline()       {}
func (Sdt) isInline()       {}
func (SmartTag) isInline()  {}
func (Bookmark) isInline()  {}

// ItemKind selects the run child written for an Item.
type ItemKind int

const (
	Text     ItemKind = iota // w:t (xml:space="preserve")
	Tab                      // w:tab
	Break                    // w:br (text wrapping break)
	PageBrk                  // w:br w:type="page"
	Sym                      // w:sym w:font=Font w:char=Text (hex code point)
	NoBreakH                 // w:noBreakHyphen
	CR                       // w:cr
	FldBegin                 // w:fldChar w:fldCharType="begin"
	FldSep                   // w:fldChar w:fldCharType="separate"
	FldEnd                   // w:fldChar w:fldCharType="end"
	Instr                    // w:instrText (field code: NOT part of the document text)
)

// Item is one child of a run, in source order.
type Item struct {
	Kind ItemKind
	Text string // Text / Instr: the characters; Sym: hex code point such as "263A"
	Font string // Sym only (default "Segoe UI Symbol")
}

// T is a text item; TabI / BrI are the tab and line-break items; SymI is a symbol item.
func T(s string) Item      { return Item{Kind: Text, Text: s} }
func TabI() Item           { return Item{Kind: Tab} }
func BrI() Item            { return Item{Kind: Break} }
func SymI(hex string) Item { return Item{Kind: Sym, Text: hex} }

// R builds a run from items.
func R(items ...Item) Run { return Run{Items: items} }

// P is a plain paragraph with one run per string.
func P(texts ...string) Para {
	var p Para
	for _, t := range texts {
		p.Content = append(p.Content, R(T(t)))
	}
	return p
}

// C is a cell with one plain paragraph per string.
func C(texts ...string) Cell {
	var c Cell
	for _, t := range texts {
		c.Blocks = append(c.Blocks, P(t))
	}
	return c
}

// ---- optional parts -----------------------------------------------------------------------

// Style is one w:style of word/styles.xml.
type Style struct {
	ID      string
	Name    string // w:name (default: ID)
	Type    string // default "paragraph"
	BasedOn string
	Default bool
	Custom  bool // w:customStyle="1"
	Outline int  // w:pPr/w:outlineLvl + 1; 0 = none
	Bold    bool
	SizeHP  int // w:sz in half points; 0 = none
}

// Level is one w:lvl of an abstract numbering.
type Level struct {
	Fmt   string // bullet, decimal, lowerLetter, ...
	Text  string // w:lvlText (default "%<n>." for numbers, "•" for bullets)
	Start int    // default 1
}

// Num is a numbering instance (w:num). Without Opts.Abstracts it is written as w:abstractNum
// (same id, Levels) + w:num. With Opts.Abstracts it only writes the w:num, which refers to the
// abstract definition AbstractID (the indirection need not be the identity).
type Num struct {
	ID            int
	Levels        []Level     // legacy form: the definition itself (ignored when Opts.Abstracts != nil)
	AbstractID    int         // with Opts.Abstracts: w:abstractNumId of the definition this num uses
	StartOverride map[int]int // ilvl -> w:lvlOverride/w:startOverride value
}

// Abstract is one w:abstractNum definition.
type Abstract struct {
	ID     int // w:abstractNumId (0 is valid)
	Levels []Level
}

// Opts selects the optional parts.
type Opts struct {
	Styles []Style // nil: no word/styles.xml
	Nums   []Num   // nil: no word/numbering.xml; written as w:num in slice order
	// Abstracts, when non-nil, are the w:abstractNum definitions in declaration order; Nums then
	// refer to them through Num.AbstractID (declaration order, ids and indirection are the caller's).
	Abstracts []Abstract
	Title     string        // "" : no docProps/core.xml
	Extra     []zipw.Member // appended verbatim (decoys etc.)
}

// DefaultStyles returns Normal, Heading1..Heading6, Title and ListParagraph (as Word writes them:
// headings based on Normal, with w:outlineLvl, bold, decreasing sizes).
func DefaultStyles() []Style {
	st := []Style{{ID: "Normal", Name: "Normal", Default: true, SizeHP: 22}}
	sizes := []int{32, 26, 24, 22, 22, 22}
	for i := 1; i <= 6; i++ {
		st = append(st, Style{ID: fmt.Sprintf("Heading%d", i), Name: fmt.Sprintf("heading %d", i), BasedOn: "Normal", Outline: i, Bold: true, SizeHP: sizes[i-1]})
	}
	st = append(st, Style{ID: "Title", Name: "Title", BasedOn: "Normal", SizeHP: 56})
	st = append(st, Style{ID: "ListParagraph", Name: "List Paragraph", BasedOn: "Normal"})
	return st
}

// DefaultNums returns numId 1 = three bullet levels, numId 2 = three decimal levels.
func DefaultNums() []Num {
	return []Num{
		{ID: 1, Levels: []Level{{Fmt: "bullet"}, {Fmt: "bullet"}, {Fmt: "bullet"}}},
		{ID: 2, Levels: []Level{{Fmt: "decimal"}, {Fmt: "decimal"}, {Fmt: "decimal"}}},
	}
}

// ---- serialization ------------------------------------------------------------------------

const (
	nsW   = "http://schemas.openxmlformats.org/wordprocessingml/2006/main"
	nsR   = "http://schemas.openxmlformats.org/officeDocument/2006/relationships"
	relNS = "http://schemas.openxmlformats.org/package/2006/relationships"
	hdr   = `<?xml version="1.0" encoding="UTF-8" standalone="yes"?>` + "\n"
)

func esc(s string) string {
	var b bytes.Buffer
	xml.EscapeText(&b, []byte(s))
	return b.String()
}

type rel struct{ id, typ, target, mode string }

type writer struct {
	b    strings.Builder
	rels []rel
	bm   int
	chg  int
}

func (w *writer) f(format string, a ...interface{}) { fmt.Fprintf(&w.b, format, a...) }

func (w *writer) run(r Run, deleted bool) {
	w.b.WriteString("<w:r>")
	if r.Bold || r.Italic {
		w.b.WriteString("<w:rPr>")
		if r.Bold {
			w.b.WriteString("<w:b/>")
		}
		if r.Italic {
			w.b.WriteString("<w:i/>")
		}
		w.b.WriteString("</w:rPr>")
	}
	for _, it := range r.Items {
		switch it.Kind {
		case Text:
			tag := "w:t"
			if deleted {
				tag = "w:delText"
			}
			w.f(`<%s xml:space="preserve">%s</%s>`, tag, esc(it.Text), tag)
		case Tab:
			w.b.WriteString("<w:tab/>")
		case Break:
			w.b.WriteString("<w:br/>")
		case PageBrk:
			w.b.WriteString(`<w:br w:type="page"/>`)
		case Sym:
			font := it.Font
			if font == "" {
				font = "Segoe UI Symbol"
			}
			w.f(`<w:sym w:font="%s" w:char="%s"/>`, esc(font), esc(it.Text))
		case NoBreakH:
			w.b.WriteString("<w:noBreakHyphen/>")
		case CR:
			w.b.WriteString("<w:cr/>")
		case FldBegin:
			w.b.WriteString(`<w:fldChar w:fldCharType="begin"/>`)
		case FldSep:
			w.b.WriteString(`<w:fldChar w:fldCharType="separate"/>`)
		case FldEnd:
			w.b.WriteString(`<w:fldChar w:fldCharType="end"/>`)
		case Instr:
			w.f(`<w:instrText xml:space="preserve">%s</w:instrText>`, esc(it.Text))
		}
	}
	w.b.WriteString("</w:r>")
}

func (w *writer) runs(rs []Run, deleted bool) {
	for _, r := range rs {
		w.run(r, deleted)
	}
}

func (w *writer) para(p Para) {
	w.b.WriteString("<w:p>")
	if p.Style != "" || p.Outline > 0 || p.NumID > 0 {
		// child order of CT_PPr: pStyle, ..., numPr, ..., outlineLvl
		w.b.WriteString("<w:pPr>")
		if p.Style != "" {
			w.f(`<w:pStyle w:val="%s"/>`, esc(p.Style))
		}
		if p.NumID > 0 {
			w.f(`<w:numPr><w:ilvl w:val="%d"/><w:numId w:val="%d"/></w:numPr>`, p.ILvl, p.NumID)
		}
		if p.Outline > 0 {
			w.f(`<w:outlineLvl w:val="%d"/>`, p.Outline-1)
		}
		w.b.WriteString("</w:pPr>")
	}
	for _, in := range p.Content {
		switch x := in.(type) {
		case Run:
			w.run(x, false)
		case Hyperlink:
			if x.Anchor != "" {
				w.f(`<w:hyperlink w:anchor="%s" w:history="1">`, esc(x.Anchor))
			} else {
				id := fmt.Sprintf("rIdL%d", len(w.rels)+1)
				url := x.URL
				if url == "" {
					url = "http://example.com/"
				}
				w.rels = append(w.rels, rel{id, nsR + "/hyperlink", url, "External"})
				w.f(`<w:hyperlink r:id="%s" w:history="1">`, id)
			}
			w.runs(x.Runs, false)
			w.b.WriteString("</w:hyperlink>")
		case Ins:
			w.chg++
			w.f(`<w:ins w:id="%d" w:author="verif" w:date="2020-01-01T00:00:00Z">`, 900+w.chg)
			w.runs(x.Runs, false)
			w.b.WriteString("</w:ins>")
		case Del:
			w.chg++
			w.f(`<w:del w:id="%d" w:author="verif" w:date="2020-01-01T00:00:00Z">`, 900+w.chg)
			w.runs(x.Runs, true)
			w.b.WriteString("</w:del>")
		case Sdt:
			w.b.WriteString(`<w:sdt><w:sdtPr><w:text/></w:sdtPr><w:sdtContent>`)
			w.runs(x.Runs, false)
			w.b.WriteString(`</w:sdtContent></w:sdt>`)
		case SmartTag:
			w.b.WriteString(`<w:smartTag w:uri="urn:verif" w:element="tag">`)
			w.runs(x.Runs, false)
			w.b.WriteString(`</w:smartTag>`)
		case Bookmark:
			w.bm++
			w.f(`<w:bookmarkStart w:id="%d" w:name="%s"/><w:bookmarkEnd w:id="%d"/>`, w.bm, esc(x.Name), w.bm)
		}
	}
	w.b.WriteString("</w:p>")
}

func (w *writer) table(t Table) {
	w.b.WriteString(`<w:tbl><w:tblPr>`)
	if t.Style != "" {
		w.f(`<w:tblStyle w:val="%s"/>`, esc(t.Style))
	}
	w.b.WriteString(`<w:tblW w:w="0" w:type="auto"/></w:tblPr><w:tblGrid>`)
	for i := 0; i < t.Cols; i++ {
		w.b.WriteString(`<w:gridCol w:w="2000"/>`)
	}
	w.b.WriteString(`</w:tblGrid>`)
	for _, r := range t.Rows {
		w.b.WriteString("<w:tr>")
		if r.Header {
			w.b.WriteString("<w:trPr><w:tblHeader/></w:trPr>")
		}
		for _, c := range r.Cells {
			span := c.Span
			if span < 1 {
				span = 1
			}
			w.f(`<w:tc><w:tcPr><w:tcW w:w="%d" w:type="dxa"/>`, 2000*span)
			if span > 1 {
				w.f(`<w:gridSpan w:val="%d"/>`, span)
			}
			switch c.VMerge {
			case VMergeRestart:
				w.b.WriteString(`<w:vMerge w:val="restart"/>`)
			case VMergeContinue:
				w.b.WriteString(`<w:vMerge/>`)
			}
			w.b.WriteString("</w:tcPr>")
			w.blocks(c.Blocks)
			// a cell must end with a paragraph
			if n := len(c.Blocks); n == 0 {
				w.b.WriteString("<w:p/>")
			} else if _, ok := c.Blocks[n-1].(Para); !ok {
				w.b.WriteString("<w:p/>")
			}
			w.b.WriteString("</w:tc>")
		}
		w.b.WriteString("</w:tr>")
	}
	w.b.WriteString("</w:tbl>")
}

func (w *writer) blocks(bs []Block) {
	for _, b := range bs {
		switch x := b.(type) {
		case Para:
			w.para(x)
		case Table:
			w.table(x)
		case SdtBlock:
			w.b.WriteString(`<w:sdt><w:sdtPr><w:docPartObj><w:docPartGallery w:val="verif"/></w:docPartObj></w:sdtPr><w:sdtContent>`)
			w.blocks(x.Blocks)
			w.b.WriteString(`</w:sdtContent></w:sdt>`)
		}
	}
}

func stylesXML(st []Style) string {
	var b strings.Builder
	b.WriteString(hdr)
	fmt.Fprintf(&b, `<w:styles xmlns:w="%s"><w:docDefaults><w:rPrDefault><w:rPr><w:rFonts w:ascii="Calibri" w:hAnsi="Calibri"/><w:sz w:val="22"/></w:rPr></w:rPrDefault><w:pPrDefault/></w:docDefaults>`, nsW)
	for _, s := range st {
		typ := s.Type
		if typ == "" {
			typ = "paragraph"
		}
		fmt.Fprintf(&b, `<w:style w:type="%s"`, typ)
		if s.Default {
			b.WriteString(` w:default="1"`)
		}
		if s.Custom {
			b.WriteString(` w:customStyle="1"`)
		}
		name := s.Name
		if name == "" {
			name = s.ID
		}
		fmt.Fprintf(&b, ` w:styleId="%s"><w:name w:val="%s"/>`, esc(s.ID), esc(name))
		if s.BasedOn != "" {
			fmt.Fprintf(&b, `<w:basedOn w:val="%s"/>`, esc(s.BasedOn))
		}
		if typ == "paragraph" {
			b.WriteString(`<w:qFormat/>`)
		}
		if s.Outline > 0 {
			fmt.Fprintf(&b, `<w:pPr><w:outlineLvl w:val="%d"/></w:pPr>`, s.Outline-1)
		}
		if s.Bold || s.SizeHP > 0 {
			b.WriteString("<w:rPr>")
			if s.Bold {
				b.WriteString("<w:b/>")
			}
			if s.SizeHP > 0 {
				fmt.Fprintf(&b, `<w:sz w:val="%d"/>`, s.SizeHP)
			}
			b.WriteString("</w:rPr>")
		}
		b.WriteString("</w:style>")
	}
	b.WriteString("</w:styles>")
	return b.String()
}

func numberingXML(nums []Num, abs []Abstract) string {
	var b strings.Builder
	b.WriteString(hdr)
	fmt.Fprintf(&b, `<w:numbering xmlns:w="%s">`, nsW)
	explicit := abs != nil
	if !explicit {
		for _, n := range nums {
			abs = append(abs, Abstract{ID: n.ID, Levels: n.Levels})
		}
	}
	for _, n := range abs {
		fmt.Fprintf(&b, `<w:abstractNum w:abstractNumId="%d"><w:multiLevelType w:val="hybridMultilevel"/>`, n.ID)
		for i, l := range n.Levels {
			start := l.Start
			if start == 0 {
				start = 1
			}
			text := l.Text
			if text == "" {
				if l.Fmt == "bullet" {
					text = "•"
				} else {
					text = fmt.Sprintf("%%%d.", i+1)
				}
			}
			fmt.Fprintf(&b, `<w:lvl w:ilvl="%d"><w:start w:val="%d"/><w:numFmt w:val="%s"/><w:lvlText w:val="%s"/><w:lvlJc w:val="left"/><w:pPr><w:ind w:left="%d" w:hanging="360"/></w:pPr></w:lvl>`,
				i, start, esc(l.Fmt), esc(text), 720*(i+1))
		}
		b.WriteString(`</w:abstractNum>`)
	}
	for _, n := range nums {
		aid := n.ID
		if explicit {
			aid = n.AbstractID
		}
		fmt.Fprintf(&b, `<w:num w:numId="%d"><w:abstractNumId w:val="%d"/>`, n.ID, aid)
		var lv []int
		for k := range n.StartOverride {
			lv = append(lv, k)
		}
		sort.Ints(lv)
		for _, k := range lv {
			fmt.Fprintf(&b, `<w:lvlOverride w:ilvl="%d"><w:startOverride w:val="%d"/></w:lvlOverride>`, k, n.StartOverride[k])
		}
		b.WriteString(`</w:num>`)
	}
	b.WriteString(`</w:numbering>`)
	return b.String()
}

func hdrFtrXML(root string, ps []Para) (string, []rel) {
	w := &writer{}
	w.b.WriteString(hdr)
	w.f(`<w:%s xmlns:w="%s" xmlns:r="%s">`, root, nsW, nsR)
	for _, p := range ps {
		w.para(p)
	}
	if len(ps) == 0 {
		w.b.WriteString("<w:p/>")
	}
	w.f(`</w:%s>`, root)
	return w.b.String(), w.rels
}

func relsXML(rs []rel) string {
	var b strings.Builder
	b.WriteString(hdr)
	fmt.Fprintf(&b, `<Relationships xmlns="%s">`, relNS)
	for _, r := range rs {
		fmt.Fprintf(&b, `<Relationship Id="%s" Type="%s" Target="%s"`, r.id, r.typ, esc(r.target))
		if r.mode != "" {
			fmt.Fprintf(&b, ` TargetMode="%s"`, r.mode)
		}
		b.WriteString("/>")
	}
	b.WriteString(`</Relationships>`)
	return b.String()
}

// Members returns the ZIP members of the package in a conventional order
// ([Content_Types].xml first).
func Members(doc Doc, o Opts) []zipw.Member {
	w := &writer{}
	var docRels []rel
	if o.Styles != nil {
		docRels = append(docRels, rel{"rIdS", nsR + "/styles", "styles.xml", ""})
	}
	if o.Nums != nil {
		docRels = append(docRels, rel{"rIdN", nsR + "/numbering", "numbering.xml", ""})
	}
	if doc.Header != nil {
		docRels = append(docRels, rel{"rIdH", nsR + "/header", "header1.xml", ""})
	}
	if doc.Footer != nil {
		docRels = append(docRels, rel{"rIdF", nsR + "/footer", "footer1.xml", ""})
	}
	w.b.WriteString(hdr)
	w.f(`<w:document xmlns:w="%s" xmlns:r="%s"><w:body>`, nsW, nsR)
	w.blocks(doc.Body)
	w.b.WriteString(`<w:sectPr>`)
	if doc.Header != nil {
		w.b.WriteString(`<w:headerReference w:type="default" r:id="rIdH"/>`)
	}
	if doc.Footer != nil {
		w.b.WriteString(`<w:footerReference w:type="default" r:id="rIdF"/>`)
	}
	w.b.WriteString(`<w:pgSz w:w="12240" w:h="15840"/><w:pgMar w:top="1440" w:right="1440" w:bottom="1440" w:left="1440" w:header="720" w:footer="720" w:gutter="0"/></w:sectPr></w:body></w:document>`)
	docRels = append(docRels, w.rels...)

	var ct strings.Builder
	ct.WriteString(hdr)
	ct.WriteString(`<Types xmlns="http://schemas.openxmlformats.org/package/2006/content-types"><Default Extension="rels" ContentType="application/vnd.openxmlformats-package.relationships+xml"/><Default Extension="xml" ContentType="application/xml"/>`)
	ovr := func(part, typ string) { fmt.Fprintf(&ct, `<Override PartName="%s" ContentType="%s"/>`, part, typ) }
	const wml = "application/vnd.openxmlformats-officedocument.wordprocessingml."
	ovr("/word/document.xml", wml+"document.main+xml")

	pkgRels := []rel{{"rId1", nsR + "/officeDocument", "word/document.xml", ""}}
	ms := []zipw.Member{{}, {}} // placeholders for content types and _rels/.rels
	ms = append(ms, zipw.M("word/document.xml", w.b.String()))
	ms = append(ms, zipw.M("word/_rels/document.xml.rels", relsXML(docRels)))
	if o.Styles != nil {
		ovr("/word/styles.xml", wml+"styles+xml")
		ms = append(ms, zipw.M("word/styles.xml", stylesXML(o.Styles)))
	}
	if o.Nums != nil {
		ovr("/word/numbering.xml", wml+"numbering+xml")
		ms = append(ms, zipw.M("word/numbering.xml", numberingXML(o.Nums, o.Abstracts)))
	}
	if doc.Header != nil {
		ovr("/word/header1.xml", wml+"header+xml")
		x, rs := hdrFtrXML("hdr", doc.Header)
		ms = append(ms, zipw.M("word/header1.xml", x))
		if len(rs) > 0 {
			ms = append(ms, zipw.M("word/_rels/header1.xml.rels", relsXML(rs)))
		}
	}
	if doc.Footer != nil {
		ovr("/word/footer1.xml", wml+"footer+xml")
		x, rs := hdrFtrXML("ftr", doc.Footer)
		ms = append(ms, zipw.M("word/footer1.xml", x))
		if len(rs) > 0 {
			ms = append(ms, zipw.M("word/_rels/footer1.xml.rels", relsXML(rs)))
		}
	}
	if o.Title != "" {
		ovr("/docProps/core.xml", "application/vnd.openxmlformats-package.core-properties+xml")
		pkgRels = append(pkgRels, rel{"rId2", "http://schemas.openxmlformats.org/package/2006/relationships/metadata/core-properties", "docProps/core.xml", ""})
		ms = append(ms, zipw.M("docProps/core.xml", hdr+`<cp:coreProperties xmlns:cp="http://schemas.openxmlformats.org/package/2006/metadata/core-properties" xmlns:dc="http://purl.org/dc/elements/1.1/"><dc:title>`+esc(o.Title)+`</dc:title></cp:coreProperties>`))
	}
	ct.WriteString(`</Types>`)
	ms[0] = zipw.M("[Content_Types].xml", ct.String())
	ms[1] = zipw.M("_rels/.rels", relsXML(pkgRels))
	return append(ms, o.Extra...)
}

// Build serializes the document to DOCX package bytes.
func Build(doc Doc, o Opts) []byte { return zipw.Zip(Members(doc, o)) }
