// Package pdfw is an independent PDF writer used as the reference side of several checks:
// a low-level incremental-revision file builder (this file) and a logical-document writer
// (doc.go) that crosses a logical document with a physical layout vector.
//
// Nothing here imports tabula. Every built file is validated structurally (offsets point at
// "n g obj", /Length equals the byte count, startxref points at the xref section).
package pdfw

import (
	"bytes"
	"compress/zlib"
	"fmt"
	"sort"
	"strings"
)

// Obj is one indirect object of a revision. Exactly one of Body (a serialized direct
// object) and Stream is used.
type Obj struct {
	Num    int
	Body   string
	Stream *Stream
	// InObjStm asks for the object to be packed into the revision's object stream
	// (only honoured when the revision's xref is a stream and the object is not a stream).
	InObjStm bool
}

// Stream is a stream object: Dict holds the extra dictionary entries (serialized, without
// << >> and without /Length), Data the already-encoded bytes.
type Stream struct {
	Dict string
	Data []byte
	// LengthRef != 0: /Length is written as "LengthRef 0 R"; the caller supplies that
	// integer object (see Builder.Len).
	LengthRef int
}

// Revision is one incremental section of the file.
type Revision struct {
	Objs []Obj  // written in this order
	Free []int  // object numbers whose newest entry becomes free in this revision
	XRef string // "table" | "stream"
	// ObjStmNum / XRefNum are the object numbers to use for the object stream container and
	// the xref stream of this revision (caller-allocated so that numbering stays under control).
	ObjStmNum int
	XRefNum   int
	// FlateXRef compresses the xref stream; FlateObjStm the object stream.
	FlateXRef, FlateObjStm bool
	// RewriteZero makes an update section carry the entry of object 0 (head of the free list) again,
	// as a writer that maintains the free list does when it frees an object.
	RewriteZero bool
}

// File describes a whole PDF file.
type File struct {
	Version string // e.g. "1.7"
	EOL     string // "\n", "\r\n" or "\r"
	Root    int    // catalog object number
	Info    int    // optional
	Revs    []Revision
}

// Token marks a byte span of the produced file (used by fault enumeration, C02).
type Token struct {
	Kind       string // header, objhdr, body, stream-data, length, xref-entry, xref-field, trailer-key, startxref, ref, number, delim
	Start, End int
	Obj        int
}

// Built is the result of Build.
type Built struct {
	Bytes   []byte
	Offsets map[int]int64 // newest uncompressed offset per object number
	Tokens  []Token
	Size    int // value of /Size in the newest trailer
}

type entry struct {
	typ  int // 0 free, 1 offset, 2 in objstm
	f1   int64
	f2   int
	used bool
}

// Build serializes the file. It panics on inconsistent input (harness bug), never on valid input.
func Build(f File) Built {
	eol := f.EOL
	if eol == "" {
		eol = "\n"
	}
	streamEOL := "\n"
	if eol != "\n" {
		streamEOL = "\r\n" // "stream" must be followed by CRLF or LF, never CR alone
	}
	ver := f.Version
	if ver == "" {
		ver = "1.7"
	}
	var out bytes.Buffer
	var toks []Token
	mark := func(kind string, start int, obj int) {
		toks = append(toks, Token{Kind: kind, Start: start, End: out.Len(), Obj: obj})
	}
	out.WriteString("%PDF-" + ver + eol)
	out.WriteString("%\xE2\xE3\xCF\xD3" + eol)
	mark("header", 0, 0)

	offsets := map[int]int64{}
	maxNum := 0
	prev := int64(-1)
	size := 0
	for ri, rev := range f.Revs {
		ents := map[int]entry{}
		if ri == 0 || rev.RewriteZero {
			ents[0] = entry{typ: 0, f1: 0, f2: 65535, used: true}
		}
		var packed []Obj
		writeObj := func(o Obj) {
			if o.Num > maxNum {
				maxNum = o.Num
			}
			off := int64(out.Len())
			s := out.Len()
			fmt.Fprintf(&out, "%d 0 obj%s", o.Num, eol)
			mark("objhdr", s, o.Num)
			if o.Stream != nil {
				s = out.Len()
				out.WriteString("<<")
				if o.Stream.Dict != "" {
					out.WriteString(" " + strings.TrimSpace(o.Stream.Dict))
				}
				ls := out.Len()
				if o.Stream.LengthRef != 0 {
					fmt.Fprintf(&out, " /Length %d 0 R", o.Stream.LengthRef)
				} else {
					fmt.Fprintf(&out, " /Length %d", len(o.Stream.Data))
				}
				mark("length", ls, o.Num)
				out.WriteString(" >>" + eol)
				mark("body", s, o.Num)
				out.WriteString("stream" + streamEOL)
				s = out.Len()
				out.Write(o.Stream.Data)
				mark("stream-data", s, o.Num)
				out.WriteString(eol + "endstream" + eol)
			} else {
				s = out.Len()
				out.WriteString(o.Body + eol)
				mark("body", s, o.Num)
			}
			out.WriteString("endobj" + eol)
			ents[o.Num] = entry{typ: 1, f1: off, used: true}
			offsets[o.Num] = off
		}
		for _, o := range rev.Objs {
			if o.InObjStm && rev.XRef == "stream" && o.Stream == nil {
				packed = append(packed, o)
				continue
			}
			writeObj(o)
		}
		if len(packed) > 0 {
			if rev.ObjStmNum == 0 {
				panic("pdfw: objects packed but no ObjStmNum")
			}
			var hdr, body bytes.Buffer
			for i, o := range packed {
				fmt.Fprintf(&hdr, "%d %d ", o.Num, body.Len())
				body.WriteString(o.Body + "\n")
				ents[o.Num] = entry{typ: 2, f1: int64(rev.ObjStmNum), f2: i, used: true}
				delete(offsets, o.Num)
				if o.Num > maxNum {
					maxNum = o.Num
				}
			}
			hs := strings.TrimRight(hdr.String(), " ") + "\n"
			data := append([]byte(hs), body.Bytes()...)
			dict := fmt.Sprintf("/Type /ObjStm /N %d /First %d", len(packed), len(hs))
			if rev.FlateObjStm {
				data = Zlib(data)
				dict += " /Filter /FlateDecode"
			}
			writeObj(Obj{Num: rev.ObjStmNum, Stream: &Stream{Dict: dict, Data: data}})
		}
		for _, n := range rev.Free {
			ents[n] = entry{typ: 0, f1: 0, f2: 1, used: true}
			delete(offsets, n)
			if n > maxNum {
				maxNum = n
			}
		}
		xrefOff := int64(out.Len())
		trailer := fmt.Sprintf("/Root %d 0 R", f.Root)
		if f.Info != 0 {
			trailer += fmt.Sprintf(" /Info %d 0 R", f.Info)
		}
		if rev.XRef == "stream" {
			if rev.XRefNum == 0 {
				panic("pdfw: xref stream without XRefNum")
			}
			if rev.XRefNum > maxNum {
				maxNum = rev.XRefNum
			}
			ents[rev.XRefNum] = entry{typ: 1, f1: xrefOff, used: true}
			size = maxNum + 1
			nums := sortedKeys(ents)
			var index []string
			var data bytes.Buffer
			for i := 0; i < len(nums); {
				j := i
				for j+1 < len(nums) && nums[j+1] == nums[j]+1 {
					j++
				}
				index = append(index, fmt.Sprintf("%d %d", nums[i], j-i+1))
				for k := i; k <= j; k++ {
					e := ents[nums[k]]
					data.WriteByte(byte(e.typ))
					data.Write([]byte{byte(e.f1 >> 24), byte(e.f1 >> 16), byte(e.f1 >> 8), byte(e.f1)})
					data.Write([]byte{byte(e.f2 >> 8), byte(e.f2)})
				}
				i = j + 1
			}
			dict := fmt.Sprintf("/Type /XRef /Size %d /W [1 4 2] /Index [%s] %s", size, strings.Join(index, " "), trailer)
			if prev >= 0 {
				dict += fmt.Sprintf(" /Prev %d", prev)
			}
			d := data.Bytes()
			if rev.FlateXRef {
				d = Zlib(d)
				dict += " /Filter /FlateDecode"
			}
			s := out.Len()
			fmt.Fprintf(&out, "%d 0 obj%s<< %s /Length %d >>%sstream%s", rev.XRefNum, eol, dict, len(d), eol, streamEOL)
			out.Write(d)
			out.WriteString(eol + "endstream" + eol + "endobj" + eol)
			mark("xref-stream", s, rev.XRefNum)
		} else {
			size = maxNum + 1
			nums := sortedKeys(ents)
			s := out.Len()
			out.WriteString("xref" + eol)
			for i := 0; i < len(nums); {
				j := i
				for j+1 < len(nums) && nums[j+1] == nums[j]+1 {
					j++
				}
				fmt.Fprintf(&out, "%d %d%s", nums[i], j-i+1, eol)
				for k := i; k <= j; k++ {
					e := ents[nums[k]]
					flag := "n"
					if e.typ == 0 {
						flag = "f"
					}
					es := out.Len()
					e2 := eol
					if len(eol) == 1 {
						e2 = " " + eol
					}
					fmt.Fprintf(&out, "%010d %05d %s%s", e.f1, e.f2, flag, e2)
					mark("xref-entry", es, nums[k])
				}
				i = j + 1
			}
			mark("xref-table", s, 0)
			s = out.Len()
			fmt.Fprintf(&out, "trailer%s<< /Size %d %s", eol, size, trailer)
			if prev >= 0 {
				fmt.Fprintf(&out, " /Prev %d", prev)
			}
			out.WriteString(" >>" + eol)
			mark("trailer", s, 0)
		}
		s := out.Len()
		fmt.Fprintf(&out, "startxref%s%d%s%%%%EOF%s", eol, xrefOff, eol, eol)
		mark("startxref", s, 0)
		prev = xrefOff
	}
	b := Built{Bytes: out.Bytes(), Offsets: offsets, Tokens: toks, Size: size}
	validate(b, f)
	return b
}

func sortedKeys(m map[int]entry) []int {
	k := make([]int, 0, len(m))
	for n := range m {
		k = append(k, n)
	}
	sort.Ints(k)
	return k
}

// validate re-checks the structural facts a reader relies on.
func validate(b Built, f File) {
	for n, off := range b.Offsets {
		want := fmt.Sprintf("%d 0 obj", n)
		if int(off)+len(want) > len(b.Bytes) || string(b.Bytes[off:int(off)+len(want)]) != want {
			panic(fmt.Sprintf("pdfw: offset of object %d does not point at %q", n, want))
		}
	}
	i := bytes.LastIndex(b.Bytes, []byte("startxref"))
	if i < 0 {
		panic("pdfw: no startxref")
	}
	var off int
	fmt.Sscanf(strings.TrimLeft(string(b.Bytes[i+9:]), "\r\n"), "%d", &off)
	if !(bytes.HasPrefix(b.Bytes[off:], []byte("xref")) || bytes.Contains(b.Bytes[off:off+20], []byte(" 0 obj"))) {
		panic("pdfw: startxref does not point at an xref section")
	}
}

// Zlib compresses with compress/zlib.
func Zlib(b []byte) []byte {
	var buf bytes.Buffer
	w := zlib.NewWriter(&buf)
	w.Write(b)
	w.Close()
	return buf.Bytes()
}
