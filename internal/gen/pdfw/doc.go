package pdfw

import (
	"bytes"
	"fmt"
	"strings"
	"unicode/utf16"

	"golang.org/x/text/encoding/charmap"
)

// FontKind selects how a line's text is encoded.
type FontKind int

const (
	Type1WinAnsi     FontKind = iota // /Type1 Helvetica, /WinAnsiEncoding
	TrueTypeMacRoman                 // /TrueType, /MacRomanEncoding, no font program
	Type0Identity                    // /Type0 Identity-H, 2-byte codes, ToUnicode CMap
	Type1Standard                    // /Type1 Times-Roman, no /Encoding (StandardEncoding); ASCII only
	Type1Widths                      // /Type1 Helvetica, /WinAnsiEncoding, with its own /FirstChar /LastChar /Widths (all 950)
	Type1Differences                 // /Type1 Helvetica, /Encoding << /BaseEncoding /WinAnsiEncoding /Differences [65 /Euro /bullet 126 /Omega] >>
)

// Line is one shown string (one Tj at its own position).
type Line struct {
	Font FontKind
	Text string // Unicode, must be encodable by the font kind
	X, Y float64
	Size float64
}

// Form is a Form XObject: its lines are shown when the form is invoked; nested forms are declared in the
// form's own /Resources (a nested form may re-use a name that means something else in the invoking scope).
type Form struct {
	Name   string // resource name without the slash, e.g. "Fm0"
	Lines  []Line
	Matrix [6]float64 // zero value: no /Matrix
	Forms  []Form
}

// Page is a logical page.
type Page struct {
	Lines []Line
	// Forms are invoked (`/Name Do`) in order after the page's own lines.
	Forms      []Form
	NoContents bool // page object without /Contents
	MediaBox   [4]float64
	Rotate     int
	// ExtraTokens are appended verbatim to the page's content stream (e.g. dangling operands).
	ExtraTokens []string
}

// Doc is a logical document.
type Doc struct {
	Name  string
	Pages []Page
}

// Layout is the physical-layout vector. The zero value of every field is the plain default.
type Layout struct {
	XRef         string // "table" (default) | "stream"
	ObjStm       string // "none" (default) | "all" | "alt"          (needs XRef=stream)
	Filter       string // "none" | "Fl" | "AHx" | "A85Fl" | "FlPNG"  (content and ToUnicode streams)
	Length       string // "direct" | "before" | "after"             (indirect /Length object placed before/after its stream)
	Split        int    // number of content streams per page: 0/1, 2, 3
	SplitWS      string // "left" (default): whitespace stays at the end of the left part | "right": moves to the start of the right part
	SplitAt      int    // rotates which token boundaries are used as cut points
	Depth        int    // page-tree depth: 0/1 flat, 2, 3
	Inherit      string // "leaf" | "parent" | "root": where MediaBox/Resources/Rotate live
	Revisions    int    // 0/1, 2, 3
	Order        string // "asc" | "desc" (descending object numbers, shuffled file order)
	Unbalanced   bool   // first and last page directly under the root, the others one or two levels deeper
	SplitPages   map[int]bool // when non-nil, Split applies only to these pages (0-based); the others keep one content stream
	Shadow       bool   // every /Pages node above the holder of the inheritable attributes carries decoy /Resources and /MediaBox (the nearest definition must win)
	PerPageFonts bool   // every page (with its forms) numbers its font resource names /F1.. by first use, so the same name means different fonts on different pages (requires Inherit=leaf)
	Indirect     bool   // Resources, the Font dictionary, MediaBox and multi-stream /Contents arrays are indirect objects
	EOL          string // "LF" | "CRLF" | "CR"
}

func (l Layout) String() string {
	return fmt.Sprintf("xref=%s objstm=%s filter=%s length=%s split=%d/%s/%d depth=%d inherit=%s rev=%d order=%s eol=%s indirect=%v unbalanced=%v",
		dflt(l.XRef, "table"), dflt(l.ObjStm, "none"), dflt(l.Filter, "none"), dflt(l.Length, "direct"), max1(l.Split), dflt(l.SplitWS, "left"), l.SplitAt,
		max1(l.Depth), dflt(l.Inherit, "leaf"), max1(l.Revisions), dflt(l.Order, "asc"), dflt(l.EOL, "LF"), l.Indirect, l.Unbalanced)
}

func dflt(s, d string) string {
	if s == "" {
		return d
	}
	return s
}
func max1(n int) int {
	if n < 1 {
		return 1
	}
	return n
}

// EncodeText returns the bytes shown for text under the font kind, or false if not encodable.
func EncodeText(k FontKind, text string) ([]byte, bool) {
	switch k {
	case Type1WinAnsi, Type1Widths:
		b, err := charmap.Windows1252.NewEncoder().Bytes([]byte(text))
		return b, err == nil
	case TrueTypeMacRoman:
		b, err := charmap.Macintosh.NewEncoder().Bytes([]byte(text))
		return b, err == nil
	case Type1Differences:
		var out []byte
		for _, r := range text {
			switch r {
			case '€':
				out = append(out, 65)
			case '•':
				out = append(out, 66)
			case 'Ω':
				out = append(out, 126)
			case 'A', 'B', '~':
				return nil, false // these codes are re-assigned by /Differences
			default:
				b, err := charmap.Windows1252.NewEncoder().Bytes([]byte(string(r)))
				if err != nil {
					return nil, false
				}
				out = append(out, b...)
			}
		}
		return out, true
	case Type1Standard:
		for _, r := range text {
			if r < 0x20 || r > 0x7E || r == '\'' || r == '`' {
				return nil, false
			}
		}
		return []byte(text), true
	}
	return nil, false
}

// cidMap assigns 2-byte codes to the runes of Type0 lines, in order of first use.
type cidMap struct {
	codes map[rune]int
	order []rune
}

func (m *cidMap) code(r rune) int {
	if c, ok := m.codes[r]; ok {
		return c
	}
	c := 0x0100 + 3*len(m.order) // sparse on purpose, crosses no byte boundary problems
	m.codes[r] = c
	m.order = append(m.order, r)
	return c
}

func (m *cidMap) toUnicode(eol string) []byte {
	var b bytes.Buffer
	w := func(s string) { b.WriteString(s + eol) }
	w("/CIDInit /ProcSet findresource begin")
	w("12 dict begin")
	w("begincmap")
	w("/CIDSystemInfo << /Registry (Adobe) /Ordering (UCS) /Supplement 0 >> def")
	w("/CMapName /Adobe-Identity-UCS def")
	w("/CMapType 2 def")
	w("1 begincodespacerange")
	w("<0000> <FFFF>")
	w("endcodespacerange")
	// entries in blocks of <= 100 as the CMap spec requires
	for i := 0; i < len(m.order); i += 100 {
		j := i + 100
		if j > len(m.order) {
			j = len(m.order)
		}
		w(fmt.Sprintf("%d beginbfchar", j-i))
		for _, r := range m.order[i:j] {
			var hex strings.Builder
			for _, u := range utf16.Encode([]rune{r}) {
				fmt.Fprintf(&hex, "%04X", u)
			}
			w(fmt.Sprintf("<%04X> <%s>", m.codes[r], hex.String()))
		}
		w("endbfchar")
	}
	w("endcmap")
	w("CMapName currentdict /CMap defineresource pop")
	w("end")
	w("end")
	return b.Bytes()
}

func pdfString(b []byte) string {
	var s strings.Builder
	s.WriteByte('(')
	for _, c := range b {
		switch {
		case c == '(' || c == ')' || c == '\\':
			s.WriteByte('\\')
			s.WriteByte(c)
		case c < 0x20 || c >= 0x7F:
			fmt.Fprintf(&s, "\\%03o", c)
		default:
			s.WriteByte(c)
		}
	}
	s.WriteByte(')')
	return s.String()
}

func num(f float64) string {
	s := fmt.Sprintf("%.3f", f)
	s = strings.TrimRight(strings.TrimRight(s, "0"), ".")
	if s == "" || s == "-" {
		return "0"
	}
	return s
}

// contentTokens renders a content stream (page or form) as a token list (so that split points are
// exactly the token boundaries): the lines, then one `/Name Do` per form, then the extra tokens.
func contentTokens(lines []Line, forms []Form, extra []string, cm *cidMap, name func(FontKind) string) []string {
	var t []string
	for _, ln := range lines {
		size := ln.Size
		if size == 0 {
			size = 10
		}
		t = append(t, "BT", name(ln.Font), num(size), "Tf", num(ln.X), num(ln.Y), "Td")
		if ln.Font == Type0Identity {
			var hex strings.Builder
			hex.WriteByte('<')
			for _, r := range ln.Text {
				fmt.Fprintf(&hex, "%04X", cm.code(r))
			}
			hex.WriteByte('>')
			t = append(t, hex.String())
		} else {
			b, ok := EncodeText(ln.Font, ln.Text)
			if !ok {
				panic(fmt.Sprintf("pdfw: text %q not encodable with font kind %d", ln.Text, ln.Font))
			}
			t = append(t, pdfString(b))
		}
		t = append(t, "Tj", "ET")
	}
	for _, f := range forms {
		t = append(t, "/"+f.Name, "Do")
	}
	t = append(t, extra...)
	return t
}

// FlattenPage lists the texts a reader must report for the page, in content order (forms expanded).
func FlattenPage(p Page) []Line {
	out := append([]Line{}, p.Lines...)
	var walk func(fs []Form)
	walk = func(fs []Form) {
		for _, f := range fs {
			out = append(out, f.Lines...)
			walk(f.Forms)
		}
	}
	walk(p.Forms)
	return out
}

func fontName(k FontKind) string { return fmt.Sprintf("/F%d", int(k)+1) }

// needsSep reports whether two adjacent tokens need whitespace between them.
func needsSep(a, b string) bool {
	la, fb := a[len(a)-1], b[0]
	delim := func(c byte) bool { return strings.IndexByte("()<>[]{}/%", c) >= 0 }
	if delim(la) && la != '/' {
		return false
	}
	if delim(fb) {
		return false
	}
	return true
}

// splitContent joins tokens into n parts cut at token boundaries. Whitespace that separates the two
// tokens at a cut stays on one side (ws = "left" | "right"); nothing is added or removed, so the
// concatenation of the parts is byte-identical to the single-stream form.
func splitContent(tokens []string, n int, ws string, at int, eol string) [][]byte {
	// separators: EOL after operators, a space otherwise
	seps := make([]string, len(tokens))
	for i := range tokens {
		if i == len(tokens)-1 {
			seps[i] = eol
			continue
		}
		c := tokens[i][0]
		isOp := (c >= 'A' && c <= 'Z') || (c >= 'a' && c <= 'z') || c == '\'' || c == '"'
		switch {
		case isOp:
			seps[i] = eol
		case needsSep(tokens[i], tokens[i+1]):
			seps[i] = " "
		default:
			seps[i] = "" // e.g. ")Tj" needs no whitespace; keeps such boundaries in the cut set
			if i%2 == 0 {
				seps[i] = " "
			}
		}
	}
	if n < 1 {
		n = 1
	}
	cuts := map[int]bool{}
	if n > 1 && len(tokens) > n {
		// candidate boundaries after token i (0..len-2); choose n-1 of them spread out, rotated by at
		nb := len(tokens) - 1
		for k := 1; k < n; k++ {
			pos := (k*nb/n + at*7) % nb
			for cuts[pos] {
				pos = (pos + 1) % nb
			}
			cuts[pos] = true
		}
	}
	var parts [][]byte
	var cur bytes.Buffer
	for i, tk := range tokens {
		cur.WriteString(tk)
		if cuts[i] {
			if ws == "right" {
				parts = append(parts, append([]byte{}, cur.Bytes()...))
				cur.Reset()
				cur.WriteString(seps[i])
			} else {
				cur.WriteString(seps[i])
				parts = append(parts, append([]byte{}, cur.Bytes()...))
				cur.Reset()
			}
			continue
		}
		cur.WriteString(seps[i])
	}
	parts = append(parts, cur.Bytes())
	return parts
}

func pngUp(b []byte, cols int) []byte {
	for len(b)%cols != 0 {
		b = append(b, ' ') // trailing blanks are harmless in content streams and CMaps
	}
	var out []byte
	for r := 0; r*cols < len(b); r++ {
		out = append(out, 2)
		for i := 0; i < cols; i++ {
			v := b[r*cols+i]
			if r > 0 {
				v -= b[(r-1)*cols+i]
			}
			out = append(out, v)
		}
	}
	return out
}

func asciiHex(b []byte) []byte {
	var o bytes.Buffer
	for i, c := range b {
		fmt.Fprintf(&o, "%02X", c)
		if i%32 == 31 {
			o.WriteByte('\n')
		}
	}
	o.WriteByte('>')
	return o.Bytes()
}

func ascii85(b []byte) []byte {
	var o bytes.Buffer
	col := 0
	put := func(c byte) {
		o.WriteByte(c)
		col++
		if col == 72 {
			o.WriteByte('\n')
			col = 0
		}
	}
	for i := 0; i < len(b); i += 4 {
		n := len(b) - i
		if n > 4 {
			n = 4
		}
		var g [4]byte
		copy(g[:], b[i:i+n])
		v := uint32(g[0])<<24 | uint32(g[1])<<16 | uint32(g[2])<<8 | uint32(g[3])
		if n == 4 && v == 0 {
			put('z')
			continue
		}
		var d [5]byte
		for k := 4; k >= 0; k-- {
			d[k] = byte(v%85) + '!'
			v /= 85
		}
		for _, c := range d[:n+1] {
			put(c)
		}
	}
	o.WriteString("~>")
	return o.Bytes()
}

// encodeStream applies the layout's filter chain; returns the filter dictionary entries and data.
func encodeStream(filter string, data []byte) (string, []byte) {
	switch filter {
	case "", "none":
		return "", data
	case "Fl":
		return "/Filter /FlateDecode", Zlib(data)
	case "AHx":
		return "/Filter /ASCIIHexDecode", asciiHex(data)
	case "A85Fl":
		return "/Filter [/ASCII85Decode /FlateDecode]", ascii85(Zlib(data))
	case "FlPNG":
		return "/Filter /FlateDecode /DecodeParms << /Predictor 12 /Columns 8 >>", Zlib(pngUp(append([]byte{}, data...), 8))
	}
	panic("pdfw: unknown filter " + filter)
}

// Write produces the file for doc under lay.
func Write(doc Doc, lay Layout) Built {
	f := Plan(doc, lay)
	return Build(f)
}

type pending struct {
	key    string // symbolic id
	body   func(ref func(string) int) string
	stream func(ref func(string) int) *Stream
	rev    int
	packOK bool
}

// Plan lays the logical document out as a File (object numbering, revisions, packing).
func Plan(doc Doc, lay Layout) File {
	eol := map[string]string{"": "\n", "LF": "\n", "CRLF": "\r\n", "CR": "\r"}[lay.EOL]
	nrev := max1(lay.Revisions)
	depth := max1(lay.Depth)
	inherit := dflt(lay.Inherit, "leaf")
	cm := &cidMap{codes: map[rune]int{}}

	// which fonts are used (globally, and per page in order of first use)
	used := map[FontKind]bool{}
	pageFonts := make([][]FontKind, len(doc.Pages))
	for i, p := range doc.Pages {
		seen := map[FontKind]bool{}
		for _, l := range FlattenPage(p) {
			used[l.Font] = true
			if !seen[l.Font] {
				seen[l.Font] = true
				pageFonts[i] = append(pageFonts[i], l.Font)
			}
		}
	}
	hasForms := false
	for _, p := range doc.Pages {
		if len(p.Forms) > 0 {
			hasForms = true
		}
	}
	if (lay.PerPageFonts || hasForms) && inherit != "leaf" {
		panic("pdfw: per-page resources (PerPageFonts / forms) need Inherit=leaf")
	}
	nameFor := func(page int) func(FontKind) string {
		if !lay.PerPageFonts {
			return fontName
		}
		return func(k FontKind) string {
			for n, f := range pageFonts[page] {
				if f == k {
					return fmt.Sprintf("/F%d", n+1)
				}
			}
			panic("pdfw: font kind not used on page")
		}
	}
	// contents first so that the cid map is complete before the ToUnicode stream is rendered
	pageTokens := make([][]string, len(doc.Pages))
	for i, p := range doc.Pages {
		pageTokens[i] = contentTokens(p.Lines, p.Forms, p.ExtraTokens, cm, nameFor(i))
	}

	var objs []pending
	add := func(p pending) { objs = append(objs, p) }

	// fonts
	fontDictFor := func(page int, ref func(string) int) string {
		var s strings.Builder
		s.WriteString("<<")
		if lay.PerPageFonts {
			for _, k := range pageFonts[page] {
				fmt.Fprintf(&s, " %s %d 0 R", nameFor(page)(k), ref(fmt.Sprintf("font%d", k)))
			}
		} else {
			for k := Type1WinAnsi; k <= Type1Differences; k++ {
				if used[k] {
					fmt.Fprintf(&s, " %s %d 0 R", fontName(k), ref(fmt.Sprintf("font%d", k)))
				}
			}
		}
		s.WriteString(" >>")
		return s.String()
	}
	xobjDict := func(prefix string, forms []Form, ref func(string) int) string {
		if len(forms) == 0 {
			return ""
		}
		var s strings.Builder
		s.WriteString(" /XObject <<")
		for k, f := range forms {
			fmt.Fprintf(&s, " /%s %d 0 R", f.Name, ref(fmt.Sprintf("%s_%d", prefix, k)))
		}
		s.WriteString(" >>")
		return s.String()
	}
	fontRes := func(page int, ref func(string) int) string {
		return "<< /Font " + fontDictFor(page, ref) + xobjDict(fmt.Sprintf("form%d", page), doc.Pages[page].Forms, ref) + " >>"
	}
	if used[Type1WinAnsi] {
		add(pending{key: "font0", packOK: true, body: func(func(string) int) string {
			return "<< /Type /Font /Subtype /Type1 /BaseFont /Helvetica /Encoding /WinAnsiEncoding >>"
		}})
	}
	if used[TrueTypeMacRoman] {
		add(pending{key: "font1", packOK: true, body: func(func(string) int) string {
			return "<< /Type /Font /Subtype /TrueType /BaseFont /Arial /Encoding /MacRomanEncoding /FirstChar 32 /LastChar 33 /Widths [278 278] >>"
		}})
	}
	if used[Type1Widths] {
		add(pending{key: "font4", packOK: true, body: func(func(string) int) string {
			w := strings.TrimSpace(strings.Repeat("950 ", 95))
			return "<< /Type /Font /Subtype /Type1 /BaseFont /Helvetica /Encoding /WinAnsiEncoding /FirstChar 32 /LastChar 126 /Widths [" + w + "] >>"
		}})
	}
	if used[Type1Differences] {
		add(pending{key: "font5", packOK: true, body: func(func(string) int) string {
			return "<< /Type /Font /Subtype /Type1 /BaseFont /Helvetica /Encoding << /Type /Encoding /BaseEncoding /WinAnsiEncoding /Differences [65 /Euro /bullet 126 /Omega] >> >>"
		}})
	}
	if used[Type1Standard] {
		add(pending{key: "font3", packOK: true, body: func(func(string) int) string {
			return "<< /Type /Font /Subtype /Type1 /BaseFont /Times-Roman >>"
		}})
	}
	if used[Type0Identity] {
		add(pending{key: "font2", packOK: true, body: func(ref func(string) int) string {
			return fmt.Sprintf("<< /Type /Font /Subtype /Type0 /BaseFont /VerifCID /Encoding /Identity-H /DescendantFonts [%d 0 R] /ToUnicode %d 0 R >>", ref("cidfont"), ref("tounicode"))
		}})
		add(pending{key: "cidfont", packOK: true, body: func(ref func(string) int) string {
			return "<< /Type /Font /Subtype /CIDFontType2 /BaseFont /VerifCID /CIDSystemInfo << /Registry (Adobe) /Ordering (Identity) /Supplement 0 >> /DW 1000 >>"
		}})
		addStream(&objs, "tounicode", 0, lay, func() []byte { return cm.toUnicode(eol) })
	}

	if lay.Shadow {
		// a font that turns every code into '?': text decoded through it is recognisably wrong
		add(pending{key: "decoyfont", packOK: true, body: func(func(string) int) string {
			var d strings.Builder
			d.WriteString("<< /Type /Font /Subtype /Type1 /BaseFont /Helvetica /Encoding << /Type /Encoding /BaseEncoding /WinAnsiEncoding /Differences [33")
			for c := 33; c < 256; c++ {
				d.WriteString(" /question")
			}
			d.WriteString("] >> >>")
			return d.String()
		}})
	}

	// pages; with revisions >= 3 the last page is appended in revision 3 (if there are >= 2 pages)
	np := len(doc.Pages)
	appended := -1
	if nrev >= 3 && np >= 2 {
		appended = np - 1
	}
	mb := func(p Page) string {
		b := p.MediaBox
		if b == [4]float64{} {
			b = [4]float64{0, 0, 612, 792}
		}
		return fmt.Sprintf("[%s %s %s %s]", num(b[0]), num(b[1]), num(b[2]), num(b[3]))
	}
	// page-tree shape: every leaf has a path root("pages") -> ... -> page.
	// depth 1: pages -> page; depth 2: pages -> mid_i -> page; depth 3: pages -> top -> mid_i -> page.
	// Unbalanced: the first and the last page hang directly under the root, the others under mid0
	// (below top at depth 3), so leaves sit at different depths and a Pages node is followed by a leaf.
	pathOf := make([][]string, np) // intermediate nodes from the root down to the leaf's parent
	for i := range doc.Pages {
		switch {
		case lay.Unbalanced && np >= 2 && (i == 0 || (i == np-1 && np >= 3)):
			pathOf[i] = []string{"pages"}
		case lay.Unbalanced && np >= 2 && depth >= 3:
			pathOf[i] = []string{"pages", "top", "mid0"}
		case lay.Unbalanced && np >= 2:
			pathOf[i] = []string{"pages", "mid0"}
		case depth == 1:
			pathOf[i] = []string{"pages"}
		case depth == 2:
			pathOf[i] = []string{"pages", fmt.Sprintf("mid%d", i/2)}
		default:
			pathOf[i] = []string{"pages", "top", fmt.Sprintf("mid%d", i/2)}
		}
	}
	parentOf := make([]string, np)
	for i := range pathOf {
		parentOf[i] = pathOf[i][len(pathOf[i])-1]
	}
	if lay.Indirect {
		for i := range doc.Pages {
			i := i
			if i > 0 && !lay.PerPageFonts && !hasForms {
				break // one shared resource dictionary
			}
			add(pending{key: fmt.Sprintf("res%d", i), packOK: true, body: func(ref func(string) int) string {
				return fmt.Sprintf("<< /Font %d 0 R%s >>", ref(fmt.Sprintf("fontdict%d", i)), xobjDict(fmt.Sprintf("form%d", i), doc.Pages[i].Forms, ref))
			}})
			add(pending{key: fmt.Sprintf("fontdict%d", i), packOK: true, body: func(ref func(string) int) string {
				return fontDictFor(i, ref)
			}})
		}
		seenMB := map[string]bool{}
		for _, p := range doc.Pages {
			p := p
			if k := "mbox" + mb(p); !seenMB[k] {
				seenMB[k] = true
				add(pending{key: k, packOK: true, body: func(func(string) int) string { return mb(p) }})
			}
		}
	}
	attrs := func(pi int, ref func(string) int) string {
		p := doc.Pages[pi]
		if lay.Indirect {
			ri := pi
			if !lay.PerPageFonts && !hasForms {
				ri = 0
			}
			s := fmt.Sprintf(" /MediaBox %d 0 R /Resources %d 0 R", ref("mbox"+mb(p)), ref(fmt.Sprintf("res%d", ri)))
			if p.Rotate != 0 {
				s += fmt.Sprintf(" /Rotate %d", p.Rotate)
			}
			return s
		}
		s := fmt.Sprintf(" /MediaBox %s /Resources %s", mb(p), fontRes(pi, ref))
		if p.Rotate != 0 {
			s += fmt.Sprintf(" /Rotate %d", p.Rotate)
		}
		return s
	}
	// inheritable attributes are shared, so they must be equal on all pages when not at the leaf
	if inherit != "leaf" {
		for _, p := range doc.Pages[1:] {
			if mb(p) != mb(doc.Pages[0]) || p.Rotate != doc.Pages[0].Rotate {
				panic("pdfw: inherit != leaf needs uniform MediaBox/Rotate")
			}
		}
	}
	// Form XObjects (recursive); a form is written in the revision of its page
	var addForms func(page int, prefix string, forms []Form, rev int)
	addForms = func(page int, prefix string, forms []Form, rev int) {
		for k, f := range forms {
			f := f
			key := fmt.Sprintf("%s_%d", prefix, k)
			toks := contentTokens(f.Lines, f.Forms, nil, cm, nameFor(page))
			data := []byte(strings.Join(toks, " ") + eol)
			addStreamX(&objs, key, rev, lay, func() []byte { return data }, func(ref func(string) int) string {
				d := "/Type /XObject /Subtype /Form /BBox [0 0 612 792]"
				if f.Matrix != [6]float64{} {
					d += fmt.Sprintf(" /Matrix [%s %s %s %s %s %s]", num(f.Matrix[0]), num(f.Matrix[1]), num(f.Matrix[2]), num(f.Matrix[3]), num(f.Matrix[4]), num(f.Matrix[5]))
				}
				return d + " /Resources << /Font " + fontDictFor(page, ref) + xobjDict(key, f.Forms, ref) + " >>"
			})
			addForms(page, key, f.Forms, rev)
		}
	}
	for i, p := range doc.Pages {
		i, p := i, p
		rev := 0
		if i == appended {
			rev = 2
		}
		addForms(i, fmt.Sprintf("form%d", i), p.Forms, rev)
		nsplit := max1(lay.Split)
		if lay.SplitPages != nil && !lay.SplitPages[i] {
			nsplit = 1
		}
		var parts [][]byte
		if !p.NoContents {
			parts = splitContent(pageTokens[i], nsplit, dflt(lay.SplitWS, "left"), lay.SplitAt, eol)
		}
		var ckeys []string
		for k, part := range parts {
			part := part
			key := fmt.Sprintf("content%d_%d", i, k)
			ckeys = append(ckeys, key)
			crev := rev
			addStream(&objs, key, crev, lay, func() []byte { return part })
			if nrev >= 2 && i == 0 && k == 0 {
				// revision 2 replaces page 1's first content stream: revision 1 holds stale content
				for j := range objs {
					if objs[j].key == key || objs[j].key == key+"_len" {
						objs[j].rev = 1
					}
				}
				first := p.Lines[0]
				var shown string
				if first.Font == Type0Identity {
					var hex strings.Builder
					hex.WriteByte('<')
					for _, r := range "STALE" {
						fmt.Fprintf(&hex, "%04X", cm.code(r))
					}
					hex.WriteByte('>')
					shown = hex.String()
				} else {
					shown = "(STALE-REVISION-1)"
				}
				stale := []byte("BT " + nameFor(i)(first.Font) + " 10 Tf 50 500 Td " + shown + " Tj ET" + eol)
				addStaleStream(&objs, key, lay, stale)
			}
		}
		add(pending{key: fmt.Sprintf("page%d", i), rev: rev, packOK: true, body: func(ref func(string) int) string {
			s := fmt.Sprintf("<< /Type /Page /Parent %d 0 R", ref(parentOf[i]))
			if inherit == "leaf" {
				s += attrs(i, ref)
			}
			switch len(ckeys) {
			case 0:
			case 1:
				s += fmt.Sprintf(" /Contents %d 0 R", ref(ckeys[0]))
			default:
				if lay.Indirect {
					s += fmt.Sprintf(" /Contents %d 0 R", ref(fmt.Sprintf("carr%d", i)))
					break
				}
				s += " /Contents ["
				for k, ck := range ckeys {
					if k > 0 {
						s += " "
					}
					s += fmt.Sprintf("%d 0 R", ref(ck))
				}
				s += "]"
			}
			return s + " >>"
		}})
		if lay.Indirect && len(ckeys) > 1 {
			add(pending{key: fmt.Sprintf("carr%d", i), rev: rev, packOK: true, body: func(ref func(string) int) string {
				s := "["
				for k, ck := range ckeys {
					if k > 0 {
						s += " "
					}
					s += fmt.Sprintf("%d 0 R", ref(ck))
				}
				return s + "]"
			}})
		}
	}
	// intermediate nodes: children in document order, counts, parents derived from the leaf paths
	childrenOf := func(node string, upto int) []string {
		var out []string
		for i := 0; i < upto; i++ {
			child := fmt.Sprintf("page%d", i)
			found := false
			for k, n := range pathOf[i] {
				if n == node {
					found = true
					if k+1 < len(pathOf[i]) {
						child = pathOf[i][k+1]
					}
					break
				}
			}
			if found && (len(out) == 0 || out[len(out)-1] != child) {
				out = append(out, child)
			}
		}
		return out
	}
	countOf := func(node string, upto int) int {
		c := 0
		for i := 0; i < upto; i++ {
			for _, n := range pathOf[i] {
				if n == node {
					c++
				}
			}
		}
		return c
	}
	decoyAttrs := func(ref func(string) int) string {
		var d strings.Builder
		d.WriteString(" /MediaBox [0 0 10 10] /Resources << /Font <<")
		for n := 1; n <= 9; n++ {
			fmt.Fprintf(&d, " /F%d %d 0 R", n, ref("decoyfont"))
		}
		d.WriteString(" >> >>")
		return d.String()
	}
	// a node is above the holder of the real attributes when the holder is the leaf (every node) or the
	// leaf's parent (every node that is not itself the parent of a leaf)
	var isLeafParentFn func(string) bool
	pagesNode := func(key, parent string, withAttrs bool, rev, upto int) pending {
		return pending{key: key, rev: rev, packOK: true, body: func(ref func(string) int) string {
			s := "<< /Type /Pages"
			if parent != "" {
				s += fmt.Sprintf(" /Parent %d 0 R", ref(parent))
			}
			s += " /Kids ["
			for i, k := range childrenOf(key, upto) {
				if i > 0 {
					s += " "
				}
				s += fmt.Sprintf("%d 0 R", ref(k))
			}
			s += fmt.Sprintf("] /Count %d", countOf(key, upto))
			if withAttrs {
				s += attrs(0, ref)
			} else if lay.Shadow && (inherit == "leaf" || (inherit == "parent" && !isLeafParentFn(key))) {
				s += decoyAttrs(ref)
			}
			return s + " >>"
		}}
	}
	// node list (each once), deepest first, with its parent
	type nodeInfo struct{ key, parent string }
	var nodes []nodeInfo
	seenNode := map[string]bool{}
	for level := 3; level >= 0; level-- {
		for i := range pathOf {
			if level < len(pathOf[i]) {
				n := pathOf[i][level]
				if !seenNode[n] {
					seenNode[n] = true
					par := ""
					if level > 0 {
						par = pathOf[i][level-1]
					}
					nodes = append(nodes, nodeInfo{n, par})
				}
			}
		}
	}
	isLeafParent := func(node string) bool {
		for i := range parentOf {
			if parentOf[i] == node {
				return true
			}
		}
		return false
	}
	isLeafParentFn = isLeafParent
	for _, nd := range nodes {
		withAttrs := (inherit == "parent" && isLeafParent(nd.key)) || (inherit == "root" && nd.key == "pages")
		// a node is (re)written in revision 3 when the appended page changes its Kids/Count
		if appended >= 0 && (len(childrenOf(nd.key, np)) != len(childrenOf(nd.key, appended)) || countOf(nd.key, np) != countOf(nd.key, appended)) {
			if countOf(nd.key, appended) > 0 || nd.key == "pages" {
				add(pagesNode(nd.key, nd.parent, withAttrs, 0, appended))
			}
			add(pagesNode(nd.key, nd.parent, withAttrs, 2, np))
			continue
		}
		add(pagesNode(nd.key, nd.parent, withAttrs, 0, np))
	}
	add(pending{key: "catalog", packOK: true, body: func(ref func(string) int) string {
		return fmt.Sprintf("<< /Type /Catalog /Pages %d 0 R >>", ref("pages"))
	}})
	if nrev >= 3 {
		// an unused object that exists in revision 1 and is freed in revision 3
		add(pending{key: "dummy", rev: 0, packOK: true, body: func(func(string) int) string { return "(to be freed)" }})
	}

	// ---- numbering -----------------------------------------------------------------
	keys := []string{}
	seenKey := map[string]bool{}
	for _, o := range objs {
		if !seenKey[o.key] {
			seenKey[o.key] = true
			keys = append(keys, o.key)
		}
	}
	numOf := map[string]int{}
	if lay.Order == "desc" {
		for i, k := range keys {
			numOf[k] = len(keys) - i
		}
	} else {
		for i, k := range keys {
			numOf[k] = i + 1
		}
	}
	next := len(keys) + 1
	ref := func(k string) int {
		n, ok := numOf[k]
		if !ok {
			panic("pdfw: unknown object key " + k)
		}
		return n
	}

	file := File{EOL: eol, Root: ref("catalog")}
	for r := 0; r < nrev; r++ {
		rev := Revision{XRef: dflt(lay.XRef, "table")}
		var list []pending
		for _, o := range objs {
			if o.rev == r {
				list = append(list, o)
			}
		}
		if lay.Order == "desc" {
			// shuffled file order: deterministic interleave of the two halves, reversed
			var sh []pending
			h := (len(list) + 1) / 2
			for i := 0; i < h; i++ {
				if h+i < len(list) {
					sh = append(sh, list[h+i])
				}
				sh = append(sh, list[i])
			}
			// keep "length before/after" adjacency: re-place length objects next to their streams
			list = fixLengthOrder(sh, lay.Length)
		}
		packIdx := 0
		for _, o := range list {
			ob := Obj{Num: ref(o.key)}
			if o.stream != nil {
				ob.Stream = o.stream(ref)
			} else {
				ob.Body = o.body(ref)
				if rev.XRef == "stream" && o.packOK {
					switch lay.ObjStm {
					case "all":
						ob.InObjStm = true
					case "alt":
						ob.InObjStm = packIdx%2 == 0
					}
					packIdx++
				}
			}
			rev.Objs = append(rev.Objs, ob)
		}
		if r == 2 && nrev >= 3 {
			rev.Free = []int{ref("dummy")}
		}
		if rev.XRef == "stream" {
			rev.XRefNum = next
			next++
			rev.FlateXRef = lay.Filter != "" && lay.Filter != "none"
			if lay.ObjStm == "all" || lay.ObjStm == "alt" {
				rev.ObjStmNum = next
				next++
				rev.FlateObjStm = rev.FlateXRef
			}
		}
		if len(rev.Objs) == 0 && len(rev.Free) == 0 {
			// nothing changed in this revision: add an unused object so the update section is not empty
			rev.Objs = append(rev.Objs, Obj{Num: next, Body: "(unused)"})
			next++
		}
		file.Revs = append(file.Revs, rev)
	}
	return file
}

func fixLengthOrder(list []pending, mode string) []pending {
	if mode != "before" && mode != "after" {
		return list
	}
	var lens = map[string]pending{}
	var rest []pending
	for _, o := range list {
		if strings.HasSuffix(o.key, "_len") {
			lens[strings.TrimSuffix(o.key, "_len")] = o
		} else {
			rest = append(rest, o)
		}
	}
	var out []pending
	for _, o := range rest {
		l, ok := lens[o.key]
		if ok && mode == "before" {
			out = append(out, l)
		}
		out = append(out, o)
		if ok && mode == "after" {
			out = append(out, l)
		}
		delete(lens, o.key)
	}
	for _, l := range lens { // length objects whose stream lives in another revision
		out = append(out, l)
	}
	return out
}

// addStream appends a stream object (and, for indirect lengths, its length object before or after it).
func addStream(objs *[]pending, key string, rev int, lay Layout, data func() []byte) {
	addStreamX(objs, key, rev, lay, data, nil)
}

// addStreamX is addStream with extra dictionary entries.
func addStreamX(objs *[]pending, key string, rev int, lay Layout, data func() []byte, extra func(ref func(string) int) string) {
	mk := func(ref func(string) int) *Stream {
		dict, enc := encodeStream(lay.Filter, data())
		if extra != nil {
			dict = strings.TrimSpace(extra(ref) + " " + dict)
		}
		s := &Stream{Dict: dict, Data: enc}
		if lay.Length == "before" || lay.Length == "after" {
			s.LengthRef = ref(key + "_len")
		}
		return s
	}
	lenObj := pending{key: key + "_len", rev: rev, packOK: true, body: func(func(string) int) string {
		_, enc := encodeStream(lay.Filter, data())
		return fmt.Sprint(len(enc))
	}}
	if lay.Length == "before" {
		*objs = append(*objs, lenObj)
	}
	*objs = append(*objs, pending{key: key, rev: rev, stream: mk})
	if lay.Length == "after" {
		*objs = append(*objs, lenObj)
	}
}

// addStaleStream adds the revision-1 version of a stream that revision 2 replaces (same key => same number).
func addStaleStream(objs *[]pending, key string, lay Layout, stale []byte) {
	// the fresh stream (and its length object, if any) were just appended with rev=1 for the stream;
	// make sure its length object also lives in revision 2 (index 1) and add stale twins in revision 1 (index 0)
	mk := func(ref func(string) int) *Stream {
		dict, enc := encodeStream(lay.Filter, stale)
		s := &Stream{Dict: dict, Data: enc}
		if lay.Length == "before" || lay.Length == "after" {
			s.LengthRef = ref(key + "_len")
		}
		return s
	}
	lenObj := pending{key: key + "_len", rev: 0, packOK: true, body: func(func(string) int) string {
		_, enc := encodeStream(lay.Filter, stale)
		return fmt.Sprint(len(enc))
	}}
	if lay.Length == "before" {
		*objs = append(*objs, lenObj)
	}
	*objs = append(*objs, pending{key: key, rev: 0, stream: mk})
	if lay.Length == "after" {
		*objs = append(*objs, lenObj)
	}
}
