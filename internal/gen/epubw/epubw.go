// Package epubw is an independent, minimal EPUB 2 / EPUB 3 writer for the verification checks.
// Its logical input (chapters in SPINE order) is what a conforming reader has to present; the
// physical package is under explicit control of the caller:
//
//   - declared order           = order of Book.Chapters (<spine><itemref idref=…/>, resolved
//     through the manifest item id -> href)
//   - manifest order           = Book.ManifestOrder (order of the <item> elements; independent of
//     the spine)
//   - manifest ids             = Chapter.ID (default "id-<letter>" scrambled so that sorting ids
//     gives neither spine nor file order)
//   - part file names / paths  = Chapter.Href (the manifest href AS WRITTEN, i.e. a relative IRI
//     reference, percent-encoded where the caller wants it) and Chapter.File (ZIP member name;
//     default: Href percent-decoded (RFC 3986: %XX only, '+' is a literal plus) and resolved
//     against the directory of the OPF, "../" segments included)
//   - OPF location             = Book.OPFPath (default "OEBPS/content.opf"; "content.opf" for a
//     root-level package document, "a/b/pkg.opf" for a nested one)
//   - ZIP member order         = Book.PartOrder (relative order of the chapter members) and
//     Book.PartsFirst (chapters before the OPF/NCX/nav members; mimetype always stays first and
//     stored, META-INF/container.xml second, as OCF requires / producers do); Members() returns
//     the list for any other arrangement
//   - TOC order                = Book.NavOrder (order of the NCX navPoints / nav <li> entries)
//   - EPUB 2 vs 3              = Book.Version (2: NCX + spine toc=…, 3: nav document with
//     properties="nav"; Book.BothNav writes both, as most EPUB 3 producers do)
//   - optional parts           = Book.OmitNav (no NCX / nav), Book.OmitMimetype, Book.NavInSpine
//   - companion resources      = Book.Resources (manifest items outside the spine, e.g. one CSS
//     per chapter, linked through Chapter.Head)
//   - decoys                   = Book.Decoys: content documents that are not in the spine
//     (Chapter.InManifest: listed in the manifest or only present in the archive)
//   - absent spine file        = Chapter.Absent (manifest item + itemref exist, file does not)
//
// Typical use:
//
//	b := epubw.Book{Title: "T", Chapters: []epubw.Chapter{{Title: "One", Body: "<p>first</p>"}, {Title: "Two", Body: "<p>second</p>"}}}
//	data := b.Bytes()
package epubw

import (
	"bytes"
	"encoding/xml"
	"fmt"
	"path"
	"strings"

	"verif/internal/gen/zipw"
)

// Chapter is one XHTML content document.
type Chapter struct {
	ID   string // manifest id
	Href string // manifest href as written (relative to the OPF, percent-encoded as the caller wishes); default "ch<k>.xhtml"
	File string // ZIP member name; default: Resolve(OPFPath, Href)

	Title    string // <title> and <h1> ("" = neither)
	NavLabel string // label in the NCX / nav document (default: Title, or "Chapter <k>")
	Body     string // XHTML placed inside <body> after the <h1>
	Head     string // raw XHTML appended inside <head> (e.g. a <link> to a Resource)
	Raw      string // complete document, overrides Title/Body

	Absent     bool   // do not write the file
	InManifest bool   // decoys only: list the document in the manifest although the spine does not reference it
	Linear     string // "", "yes", "no": linear attribute of the itemref
	MediaType  string // default application/xhtml+xml
}

// Resource is a non-spine publication resource (stylesheet, image, ...): a manifest item plus its file.
type Resource struct {
	ID, Href, MediaType string // Href relative to the OPF, as written in the manifest
	Data                string
}

// Book is the logical publication plus packaging choices.
type Book struct {
	Version int // 2 or 3 (default 3)
	BothNav bool
	OPFPath string

	Title, Author, Language, Identifier string

	Chapters  []Chapter  // SPINE order
	Decoys    []Chapter  // not in the spine
	Resources []Resource // optional companion resources (written after the infrastructure members)

	ManifestOrder []int // order of the chapter <item>s: permutation of 0..len(Chapters)-1 (nil: spine order)
	PartOrder     []int // ZIP order of the content members: permutation over Chapters followed by Decoys (nil: as listed)
	PartsFirst    bool  // content members before OPF / NCX / nav

	OmitNav      bool // neither NCX nor nav document
	OmitMimetype bool
	NavInSpine   bool     // EPUB 3: the nav document is also the first spine item (common in the wild)
	NavOrder     []int    // order of the NCX navPoints / nav entries: permutation of 0..len(Chapters)-1 (nil: spine order); the TOC is not the reading order
	NavHrefs     []string // hrefs used in the NCX / nav (default: the chapters' hrefs relative to the nav file = same directory as the OPF)
}

// Esc escapes text for XML character data / attribute values.
func Esc(s string) string {
	var b bytes.Buffer
	xml.EscapeText(&b, []byte(s))
	return b.String()
}

// PctDecode decodes %XX escapes only (RFC 3986); '+' stays '+'. Malformed escapes are kept.
func PctDecode(s string) string {
	var b strings.Builder
	for i := 0; i < len(s); i++ {
		if s[i] == '%' && i+2 < len(s) && isHex(s[i+1]) && isHex(s[i+2]) {
			b.WriteByte(unhex(s[i+1])<<4 | unhex(s[i+2]))
			i += 2
			continue
		}
		b.WriteByte(s[i])
	}
	return b.String()
}

func isHex(c byte) bool {
	return c >= '0' && c <= '9' || c >= 'a' && c <= 'f' || c >= 'A' && c <= 'F'
}

func unhex(c byte) byte {
	switch {
	case c >= '0' && c <= '9':
		return c - '0'
	case c >= 'a' && c <= 'f':
		return c - 'a' + 10
	}
	return c - 'A' + 10
}

// PctEncode percent-encodes every byte of s that is not an RFC 3986 unreserved character or '/'.
// extra lists additional bytes to leave alone (e.g. "+").
func PctEncode(s, extra string) string {
	var b strings.Builder
	for i := 0; i < len(s); i++ {
		c := s[i]
		if c >= 'a' && c <= 'z' || c >= 'A' && c <= 'Z' || c >= '0' && c <= '9' || strings.IndexByte("-._~/", c) >= 0 || strings.IndexByte(extra, c) >= 0 {
			b.WriteByte(c)
		} else {
			fmt.Fprintf(&b, "%%%02X", c)
		}
	}
	return b.String()
}

// Resolve returns the ZIP member name a manifest href denotes: fragment stripped, percent-decoded,
// resolved against the directory of opfPath, "." and ".." segments removed.
func Resolve(opfPath, href string) string {
	if i := strings.IndexByte(href, '#'); i >= 0 {
		href = href[:i]
	}
	segs := strings.Split(path.Dir(opfPath), "/")
	if path.Dir(opfPath) == "." {
		segs = nil
	}
	for _, s := range strings.Split(href, "/") {
		switch s {
		case ".", "":
		case "..":
			if len(segs) > 0 {
				segs = segs[:len(segs)-1]
			}
		default:
			segs = append(segs, PctDecode(s))
		}
	}
	return strings.Join(segs, "/")
}

func (b *Book) resolved() (chs, decoys []Chapter, opf string) {
	opf = b.OPFPath
	if opf == "" {
		opf = "OEBPS/content.opf"
	}
	// ids scrambled on purpose: alphabetical id order is neither spine nor file order
	idFor := func(k int) string { return fmt.Sprintf("id-%c%d", 'a'+byte((k*7+3)%26), k) }
	fill := func(c Chapter, k int) Chapter {
		if c.Href == "" {
			c.Href = fmt.Sprintf("ch%d.xhtml", k)
		}
		if c.ID == "" {
			c.ID = idFor(k)
		}
		if c.File == "" {
			c.File = Resolve(opf, c.Href)
		}
		if c.MediaType == "" {
			c.MediaType = "application/xhtml+xml"
		}
		return c
	}
	for i, c := range b.Chapters {
		chs = append(chs, fill(c, i+1))
	}
	for i, c := range b.Decoys {
		decoys = append(decoys, fill(c, len(b.Chapters)+i+1))
	}
	return
}

// ChapterXHTML renders one content document.
func ChapterXHTML(c Chapter) string {
	if c.Raw != "" {
		return c.Raw
	}
	var b strings.Builder
	b.WriteString(`<?xml version="1.0" encoding="UTF-8"?>` + "\n")
	b.WriteString(`<html xmlns="http://www.w3.org/1999/xhtml"><head>`)
	if c.Title != "" {
		fmt.Fprintf(&b, `<title>%s</title>`, Esc(c.Title))
	} else {
		b.WriteString(`<title></title>`)
	}
	b.WriteString(c.Head)
	b.WriteString(`</head><body>`)
	if c.Title != "" {
		fmt.Fprintf(&b, `<h1>%s</h1>`, Esc(c.Title))
	}
	b.WriteString(c.Body)
	b.WriteString(`</body></html>`)
	return b.String()
}

// Members returns the archive members in their final order.
func (b *Book) Members() []zipw.Member {
	chs, decoys, opfPath := b.resolved()
	all := append(append([]Chapter{}, chs...), decoys...)
	ver := b.Version
	if ver == 0 {
		ver = 3
	}
	lang := b.Language
	if lang == "" {
		lang = "en"
	}
	ident := b.Identifier
	if ident == "" {
		ident = "urn:uuid:00000000-0000-4000-8000-000000000018"
	}
	wantNCX := !b.OmitNav && (ver == 2 || b.BothNav)
	wantNav := !b.OmitNav && (ver == 3 || b.BothNav)
	opfDir := path.Dir(opfPath)
	inDir := func(name string) string {
		if opfDir == "." {
			return name
		}
		return opfDir + "/" + name
	}

	// ---- OPF ---------------------------------------------------------------------------
	var o strings.Builder
	o.WriteString(`<?xml version="1.0" encoding="UTF-8"?>` + "\n")
	fmt.Fprintf(&o, `<package xmlns="http://www.idpf.org/2007/opf" version="%d.0" unique-identifier="bookid">`, ver)
	o.WriteString(`<metadata xmlns:dc="http://purl.org/dc/elements/1.1/" xmlns:opf="http://www.idpf.org/2007/opf">`)
	fmt.Fprintf(&o, `<dc:identifier id="bookid">%s</dc:identifier><dc:title>%s</dc:title><dc:language>%s</dc:language>`, Esc(ident), Esc(b.Title), Esc(lang))
	if b.Author != "" {
		fmt.Fprintf(&o, `<dc:creator>%s</dc:creator>`, Esc(b.Author))
	}
	if ver == 3 {
		o.WriteString(`<meta property="dcterms:modified">2020-01-01T00:00:00Z</meta>`)
	}
	o.WriteString(`</metadata><manifest>`)
	if wantNCX {
		o.WriteString(`<item id="ncx" href="toc.ncx" media-type="application/x-dtbncx+xml"/>`)
	}
	if wantNav {
		o.WriteString(`<item id="nav" href="nav.xhtml" media-type="application/xhtml+xml" properties="nav"/>`)
	}
	mo := b.ManifestOrder
	if mo == nil {
		for i := range chs {
			mo = append(mo, i)
		}
	}
	for _, i := range mo {
		fmt.Fprintf(&o, `<item id="%s" href="%s" media-type="%s"/>`, Esc(chs[i].ID), Esc(chs[i].Href), Esc(chs[i].MediaType))
	}
	for _, c := range decoys {
		if c.InManifest {
			fmt.Fprintf(&o, `<item id="%s" href="%s" media-type="%s"/>`, Esc(c.ID), Esc(c.Href), Esc(c.MediaType))
		}
	}
	for _, r := range b.Resources {
		fmt.Fprintf(&o, `<item id="%s" href="%s" media-type="%s"/>`, Esc(r.ID), Esc(r.Href), Esc(r.MediaType))
	}
	o.WriteString(`</manifest>`)
	if wantNCX {
		o.WriteString(`<spine toc="ncx">`)
	} else {
		o.WriteString(`<spine>`)
	}
	if b.NavInSpine && wantNav {
		o.WriteString(`<itemref idref="nav"/>`)
	}
	for _, c := range chs {
		if c.Linear != "" {
			fmt.Fprintf(&o, `<itemref idref="%s" linear="%s"/>`, Esc(c.ID), c.Linear)
		} else {
			fmt.Fprintf(&o, `<itemref idref="%s"/>`, Esc(c.ID))
		}
	}
	o.WriteString(`</spine></package>`)

	// ---- navigation --------------------------------------------------------------------
	navHref := func(i int) string {
		if i < len(b.NavHrefs) {
			return b.NavHrefs[i]
		}
		return chs[i].Href
	}
	label := func(i int) string {
		if chs[i].NavLabel != "" {
			return chs[i].NavLabel
		}
		if chs[i].Title != "" {
			return chs[i].Title
		}
		return fmt.Sprintf("Chapter %d", i+1)
	}
	var ncx, nav strings.Builder
	ncx.WriteString(`<?xml version="1.0" encoding="UTF-8"?>` + "\n")
	fmt.Fprintf(&ncx, `<ncx xmlns="http://www.daisy.org/z3986/2005/ncx/" version="2005-1"><head><meta name="dtb:uid" content="%s"/></head><docTitle><text>%s</text></docTitle><navMap>`, Esc(ident), Esc(b.Title))
	nav.WriteString(`<?xml version="1.0" encoding="UTF-8"?>` + "\n")
	nav.WriteString(`<html xmlns="http://www.w3.org/1999/xhtml" xmlns:epub="http://www.idpf.org/2007/ops"><head><title>Contents</title></head><body><nav epub:type="toc" id="toc"><h2>Contents</h2><ol>`)
	no := b.NavOrder
	if no == nil {
		for i := range chs {
			no = append(no, i)
		}
	}
	for n, i := range no {
		fmt.Fprintf(&ncx, `<navPoint id="np%d" playOrder="%d"><navLabel><text>%s</text></navLabel><content src="%s"/></navPoint>`, n+1, n+1, Esc(label(i)), Esc(navHref(i)))
		fmt.Fprintf(&nav, `<li><a href="%s">%s</a></li>`, Esc(navHref(i)), Esc(label(i)))
	}
	ncx.WriteString(`</navMap></ncx>`)
	nav.WriteString(`</ol></nav></body></html>`)

	// ---- members -----------------------------------------------------------------------
	var head []zipw.Member
	if !b.OmitMimetype {
		head = append(head, zipw.Member{Name: "mimetype", Data: []byte("application/epub+zip"), Store: true})
	}
	head = append(head, zipw.M("META-INF/container.xml", `<?xml version="1.0" encoding="UTF-8"?>`+"\n"+
		`<container version="1.0" xmlns="urn:oasis:names:tc:opendocument:xmlns:container"><rootfiles><rootfile full-path="`+Esc(opfPath)+`" media-type="application/oebps-package+xml"/></rootfiles></container>`))
	infra := []zipw.Member{zipw.M(opfPath, o.String())}
	if wantNCX {
		infra = append(infra, zipw.M(inDir("toc.ncx"), ncx.String()))
	}
	if wantNav {
		infra = append(infra, zipw.M(inDir("nav.xhtml"), nav.String()))
	}
	for _, r := range b.Resources {
		infra = append(infra, zipw.M(Resolve(opfPath, r.Href), r.Data))
	}
	po := b.PartOrder
	if po == nil {
		for i := range all {
			po = append(po, i)
		}
	}
	var parts []zipw.Member
	for _, i := range po {
		if all[i].Absent {
			continue
		}
		parts = append(parts, zipw.M(all[i].File, ChapterXHTML(all[i])))
	}
	out := head
	if b.PartsFirst {
		out = append(out, parts...)
		out = append(out, infra...)
	} else {
		out = append(out, infra...)
		out = append(out, parts...)
	}
	return out
}

// Bytes serializes the book.
func (b *Book) Bytes() []byte { return zipw.Zip(b.Members()) }
