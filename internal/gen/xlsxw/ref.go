package xlsxw

import (
	"fmt"
	"strings"
)

// Reference A1 codec (0-based column / row indices), written independently of tabula:
// the column name of index i is found by length class (26 one-letter names, 26^2 two-letter
// names, ...) and then as a fixed-width base-26 numeral inside its class.

// ColName returns the column letters of a 0-based column index ("A" for 0, "AA" for 26).
func ColName(i int) string {
	if i < 0 {
		panic("xlsxw: negative column")
	}
	length, block := 1, 26
	for i >= block {
		i -= block
		length++
		block *= 26
	}
	b := make([]byte, length)
	for k := length - 1; k >= 0; k-- {
		b[k] = byte('A' + i%26)
		i /= 26
	}
	return string(b)
}

// ColIndex is the inverse of ColName; ok is false unless s is one or more letters A..Z.
func ColIndex(s string) (idx int, ok bool) {
	if s == "" {
		return 0, false
	}
	before, block, v := 0, 1, 0
	for k := 0; k < len(s); k++ {
		c := s[k]
		if c < 'A' || c > 'Z' {
			return 0, false
		}
		if k > 0 {
			before += block
		}
		block *= 26
		v = v*26 + int(c-'A')
	}
	return before + v, true
}

// Ref returns the A1 address of a 0-based (column, row).
func Ref(col, row int) string { return fmt.Sprintf("%s%d", ColName(col), row+1) }

// ParseRef parses a canonical A1 address (upper-case letters, then a positive decimal row
// without sign or leading zero) into 0-based (column, row).
func ParseRef(ref string) (col, row int, err error) {
	i := 0
	for i < len(ref) && ref[i] >= 'A' && ref[i] <= 'Z' {
		i++
	}
	col, ok := ColIndex(ref[:i])
	if !ok || i == len(ref) || ref[i] == '0' {
		return 0, 0, fmt.Errorf("bad cell reference %q", ref)
	}
	n := 0
	for _, c := range ref[i:] {
		if c < '0' || c > '9' || n > 1<<40 {
			return 0, 0, fmt.Errorf("bad cell reference %q", ref)
		}
		n = n*10 + int(c-'0')
	}
	return col, n - 1, nil
}

// ParseRange parses "A1:B2" into 0-based (col1,row1,col2,row2).
func ParseRange(r string) (c1, r1, c2, r2 int, err error) {
	a, b, ok := strings.Cut(r, ":")
	if !ok {
		return 0, 0, 0, 0, fmt.Errorf("bad range %q", r)
	}
	if c1, r1, err = ParseRef(a); err != nil {
		return
	}
	c2, r2, err = ParseRef(b)
	return
}
