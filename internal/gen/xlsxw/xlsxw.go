// Package xlsxw is an independent XLSX (SpreadsheetML) writer for the checks: a logical
// workbook (sheets in declared order, cells by A1 address with an explicit storage kind,
// merged ranges) is turned into the parts of a valid package and zipped with
// verif/internal/gen/zipw. It shares no code with tabula; the A1 codec in ref.go is the
// reference codec of property C17.
//
// Small API:
//
//	wb := &xlsxw.Workbook{Sheets: []xlsxw.Sheet{{Name: "S1", Cells: []xlsxw.Cell{
//	        {Ref: "A1", Kind: xlsxw.Shared, Value: "hello"},
//	        {Ref: "B2", Kind: xlsxw.Number, Value: "42"}},
//	        Merges: []string{"A1:B1"}}}}
//	data := wb.Bytes()            // the .xlsx file
//	members := wb.Members()       // or the ordered ZIP members, to permute / extend before zipw.Zip
//
// Order is the caller's: sheets appear in workbook.xml in slice order; inside a sheet the <row>
// elements appear in the order in which their row number first occurs in Cells and the <c>
// elements of a row in the order given (SortCells gives the canonical row-major order), so
// out-of-order rows and cells are written by ordering Cells accordingly.
//
// Part paths are explicit where it matters: Sheet.Path (default xl/worksheets/sheet<N>.xml,
// N = position in Sheets), Sheet.RelID (default rId<N>), Workbook.SSTPath, and
// Workbook.AbsoluteTargets (relationship targets written as "/xl/..." instead of relative
// to xl/). The parts written are [Content_Types].xml, _rels/.rels, xl/workbook.xml,
// xl/_rels/workbook.xml.rels (members are stored unless Workbook.Deflate), xl/styles.xml (unless NoStyles), xl/sharedStrings.xml (when a
// shared string exists or ForceSST) and one worksheet part per sheet, in that member order.
package xlsxw

import (
	"fmt"
	"sort"
	"strings"

	"verif/internal/gen/zipw"
)

// Kind is the storage form of a cell.
type Kind int

const (
	Shared     Kind = iota // t="s": index into the shared-string table, <si><t>
	SharedRich             // t="s": shared string made of rich-text runs, <si><r><rPr/><t>..</t></r>..</si>
	Inline                 // t="inlineStr": <is><t>
	InlineRich             // t="inlineStr": <is><r><t>..</t></r>..</is>
	FormulaStr             // t="str": <f>formula</f><v>cached text</v>
	Number                 // no t (or t="n" with ExplicitT): <v>number</v>
	Bool                   // t="b": <v>1|0</v>; Value is "TRUE" or "FALSE"
	Error                  // t="e": <v>#DIV/0!</v>
	Blank                  // <c r=".." s="1"/>: a styled cell without a value
)

var kindNames = []string{"shared", "sharedrich", "inline", "inlinerich", "str", "num", "bool", "err", "blank"}

func (k Kind) String() string { return kindNames[k] }

// Kinds lists every kind that carries a value, in a fixed order.
var Kinds = []Kind{Shared, SharedRich, Inline, InlineRich, FormulaStr, Number, Bool, Error}

// Cell is one <c> element.
type Cell struct {
	Ref   string // A1 address, e.g. "AB7"
	Kind  Kind
	Value string // the displayed value: the text, the number literal, "TRUE"/"FALSE", the error literal
	// Runs splits Value into rich-text runs for the rich kinds (must concatenate to Value);
	// default: two runs, split in the middle (one run if Value has fewer than 2 bytes).
	Runs []string
	// Formula, when non-empty, is written as <f> before <v> (FormulaStr always has one; default "\"x\"").
	Formula   string
	ExplicitT bool // Number: write t="n"
}

// Display is the value a spreadsheet shows for the cell (Value; "" for Blank).
func (c Cell) Display() string {
	if c.Kind == Blank {
		return ""
	}
	return c.Value
}

// Sheet is one worksheet.
type Sheet struct {
	Name   string
	Cells  []Cell   // written in this order (see package comment)
	Merges []string // "A1:B2"
	Path   string   // part path inside the ZIP; default xl/worksheets/sheet<N>.xml
	RelID  string   // relationship id; default rId<N>
	// NoDimension omits the <dimension> element (it is optional).
	NoDimension bool
}

// Workbook is the logical document.
type Workbook struct {
	Sheets []Sheet
	// ReverseSST stores the shared strings in reverse order of first use (indices then decrease
	// through the sheet instead of increasing).
	ReverseSST bool
	// PadSST puts that many unused entries in front of the shared-string table.
	PadSST int
	// ForceSST writes xl/sharedStrings.xml even when no cell uses it.
	ForceSST bool
	SSTPath  string // default xl/sharedStrings.xml
	NoStyles bool
	// AbsoluteTargets writes relationship targets as absolute part names ("/xl/worksheets/sheet1.xml").
	AbsoluteTargets bool
	// Deflate compresses the members (as spreadsheet applications do). Default: stored members,
	// which is equally valid and an order of magnitude cheaper to generate in bulk.
	Deflate bool
	// Extra members are appended after the standard parts (docProps, decoys, ...).
	Extra []zipw.Member
}

const (
	nsMain    = "http://schemas.openxmlformats.org/spreadsheetml/2006/main"
	nsRel     = "http://schemas.openxmlformats.org/officeDocument/2006/relationships"
	nsPkgRel  = "http://schemas.openxmlformats.org/package/2006/relationships"
	nsCT      = "http://schemas.openxmlformats.org/package/2006/content-types"
	xmlHeader = `<?xml version="1.0" encoding="UTF-8" standalone="yes"?>` + "\n"
)

// Esc escapes character data / attribute values.
func Esc(s string) string { return escaper.Replace(s) }

var escaper = strings.NewReplacer("&", "&amp;", "<", "&lt;", ">", "&gt;", `"`, "&quot;", "\r", "&#13;")

func (s *Sheet) path(i int) string {
	if s.Path != "" {
		return s.Path
	}
	return fmt.Sprintf("xl/worksheets/sheet%d.xml", i+1)
}

func (s *Sheet) relID(i int) string {
	if s.RelID != "" {
		return s.RelID
	}
	return fmt.Sprintf("rId%d", i+1)
}

type sstEntry struct {
	rich bool
	text string
	runs []string
}

func runsOf(c Cell) []string {
	if c.Runs != nil {
		if strings.Join(c.Runs, "") != c.Value {
			panic("xlsxw: Runs do not concatenate to Value in " + c.Ref)
		}
		return c.Runs
	}
	if len(c.Value) < 2 {
		return []string{c.Value}
	}
	// split on a rune boundary near the middle
	m := len(c.Value) / 2
	for m < len(c.Value) && c.Value[m]&0xC0 == 0x80 {
		m++
	}
	if m == len(c.Value) {
		return []string{c.Value}
	}
	return []string{c.Value[:m], c.Value[m:]}
}

func textEl(s string) string {
	return `<t xml:space="preserve">` + Esc(s) + `</t>`
}

func richXML(runs []string) string {
	var b strings.Builder
	for i, r := range runs {
		b.WriteString("<r>")
		if i%2 == 0 {
			b.WriteString(`<rPr><b/><sz val="11"/><rFont val="Calibri"/></rPr>`)
		}
		b.WriteString(textEl(r))
		b.WriteString("</r>")
	}
	return b.String()
}

// Members returns the ZIP members of the package in their standard order.
func (w *Workbook) Members() []zipw.Member {
	if len(w.Sheets) == 0 {
		panic("xlsxw: a workbook needs at least one sheet")
	}
	// shared-string table: one entry per distinct (rich, text), in order of first use
	var sst []sstEntry
	index := map[string]int{}
	key := func(c Cell) string {
		if c.Kind == SharedRich {
			return "r\x00" + strings.Join(runsOf(c), "\x00")
		}
		return "p\x00" + c.Value
	}
	for si := range w.Sheets {
		for _, c := range w.Sheets[si].Cells {
			if c.Kind != Shared && c.Kind != SharedRich {
				continue
			}
			k := key(c)
			if _, ok := index[k]; ok {
				continue
			}
			index[k] = len(sst)
			e := sstEntry{rich: c.Kind == SharedRich, text: c.Value}
			if e.rich {
				e.runs = runsOf(c)
			}
			sst = append(sst, e)
		}
	}
	n := len(sst)
	sstIndex := func(c Cell) int {
		i := index[key(c)]
		if w.ReverseSST {
			i = n - 1 - i
		}
		return i + w.PadSST
	}
	hasSST := n > 0 || w.ForceSST || w.PadSST > 0
	sstPath := w.SSTPath
	if sstPath == "" {
		sstPath = "xl/sharedStrings.xml"
	}

	target := func(p string) string {
		if w.AbsoluteTargets {
			return "/" + p
		}
		return strings.TrimPrefix(p, "xl/")
	}

	// [Content_Types].xml
	var ct strings.Builder
	ct.WriteString(xmlHeader + `<Types xmlns="` + nsCT + `">`)
	ct.WriteString(`<Default Extension="rels" ContentType="application/vnd.openxmlformats-package.relationships+xml"/>`)
	ct.WriteString(`<Default Extension="xml" ContentType="application/xml"/>`)
	ct.WriteString(`<Override PartName="/xl/workbook.xml" ContentType="application/vnd.openxmlformats-officedocument.spreadsheetml.sheet.main+xml"/>`)
	for i := range w.Sheets {
		ct.WriteString(`<Override PartName="/` + Esc(w.Sheets[i].path(i)) + `" ContentType="application/vnd.openxmlformats-officedocument.spreadsheetml.worksheet+xml"/>`)
	}
	if !w.NoStyles {
		ct.WriteString(`<Override PartName="/xl/styles.xml" ContentType="application/vnd.openxmlformats-officedocument.spreadsheetml.styles+xml"/>`)
	}
	if hasSST {
		ct.WriteString(`<Override PartName="/` + Esc(sstPath) + `" ContentType="application/vnd.openxmlformats-officedocument.spreadsheetml.sharedStrings+xml"/>`)
	}
	ct.WriteString(`</Types>`)

	rootRels := xmlHeader + `<Relationships xmlns="` + nsPkgRel + `">` +
		`<Relationship Id="rId1" Type="` + nsRel + `/officeDocument" Target="xl/workbook.xml"/></Relationships>`

	// workbook.xml + its relationships
	var wbx, rels strings.Builder
	wbx.WriteString(xmlHeader + `<workbook xmlns="` + nsMain + `" xmlns:r="` + nsRel + `"><sheets>`)
	rels.WriteString(xmlHeader + `<Relationships xmlns="` + nsPkgRel + `">`)
	for i := range w.Sheets {
		s := &w.Sheets[i]
		fmt.Fprintf(&wbx, `<sheet name="%s" sheetId="%d" r:id="%s"/>`, Esc(s.Name), i+1, Esc(s.relID(i)))
		fmt.Fprintf(&rels, `<Relationship Id="%s" Type="%s/worksheet" Target="%s"/>`, Esc(s.relID(i)), nsRel, Esc(target(s.path(i))))
	}
	wbx.WriteString(`</sheets></workbook>`)
	next := len(w.Sheets) + 100
	if !w.NoStyles {
		fmt.Fprintf(&rels, `<Relationship Id="rId%d" Type="%s/styles" Target="%s"/>`, next, nsRel, target("xl/styles.xml"))
		next++
	}
	if hasSST {
		fmt.Fprintf(&rels, `<Relationship Id="rId%d" Type="%s/sharedStrings" Target="%s"/>`, next, nsRel, Esc(target(sstPath)))
	}
	rels.WriteString(`</Relationships>`)

	members := []zipw.Member{
		zipw.M("[Content_Types].xml", ct.String()),
		zipw.M("_rels/.rels", rootRels),
		zipw.M("xl/workbook.xml", wbx.String()),
		zipw.M("xl/_rels/workbook.xml.rels", rels.String()),
	}
	if !w.NoStyles {
		members = append(members, zipw.M("xl/styles.xml", xmlHeader+`<styleSheet xmlns="`+nsMain+`">`+
			`<fonts count="1"><font><sz val="11"/><name val="Calibri"/></font></fonts>`+
			`<fills count="2"><fill><patternFill patternType="none"/></fill><fill><patternFill patternType="gray125"/></fill></fills>`+
			`<borders count="1"><border><left/><right/><top/><bottom/><diagonal/></border></borders>`+
			`<cellStyleXfs count="1"><xf numFmtId="0" fontId="0" fillId="0" borderId="0"/></cellStyleXfs>`+
			`<cellXfs count="2"><xf numFmtId="0" fontId="0" fillId="0" borderId="0" xfId="0"/><xf numFmtId="0" fontId="0" fillId="1" borderId="0" xfId="0" applyFill="1"/></cellXfs>`+
			`</styleSheet>`))
	}
	if hasSST {
		var b strings.Builder
		uses := 0
		for si := range w.Sheets {
			for _, c := range w.Sheets[si].Cells {
				if c.Kind == Shared || c.Kind == SharedRich {
					uses++
				}
			}
		}
		fmt.Fprintf(&b, `%s<sst xmlns="%s" count="%d" uniqueCount="%d">`, xmlHeader, nsMain, uses, n+w.PadSST)
		for i := 0; i < w.PadSST; i++ {
			fmt.Fprintf(&b, `<si><t>unused%d</t></si>`, i)
		}
		for i := 0; i < n; i++ {
			e := sst[i]
			if w.ReverseSST {
				e = sst[n-1-i]
			}
			b.WriteString("<si>")
			if e.rich {
				b.WriteString(richXML(e.runs))
			} else {
				b.WriteString(textEl(e.text))
			}
			b.WriteString("</si>")
		}
		b.WriteString("</sst>")
		members = append(members, zipw.M(sstPath, b.String()))
	}
	for i := range w.Sheets {
		members = append(members, zipw.M(w.Sheets[i].path(i), w.Sheets[i].xml(sstIndex)))
	}
	for i := range members {
		members[i].Store = !w.Deflate
	}
	return append(members, w.Extra...)
}

// Bytes returns the .xlsx file.
func (w *Workbook) Bytes() []byte { return zipw.Zip(w.Members()) }

func (s *Sheet) xml(sstIndex func(Cell) int) string {
	var b strings.Builder
	b.WriteString(xmlHeader + `<worksheet xmlns="` + nsMain + `" xmlns:r="` + nsRel + `">`)
	// group into rows by first occurrence
	type row struct {
		n     int
		cells []Cell
	}
	var rows []*row
	byN := map[int]*row{}
	minC, minR, maxC, maxR := -1, -1, -1, -1
	seen := map[string]bool{}
	for _, c := range s.Cells {
		col, r, err := ParseRef(c.Ref)
		if err != nil {
			panic("xlsxw: " + err.Error())
		}
		if seen[c.Ref] {
			panic("xlsxw: duplicate cell " + c.Ref)
		}
		seen[c.Ref] = true
		if minC < 0 || col < minC {
			minC = col
		}
		if minR < 0 || r < minR {
			minR = r
		}
		if col > maxC {
			maxC = col
		}
		if r > maxR {
			maxR = r
		}
		rw := byN[r]
		if rw == nil {
			rw = &row{n: r}
			byN[r] = rw
			rows = append(rows, rw)
		}
		rw.cells = append(rw.cells, c)
	}
	if !s.NoDimension {
		switch {
		case len(s.Cells) == 0:
			b.WriteString(`<dimension ref="A1"/>`)
		case minC == maxC && minR == maxR:
			b.WriteString(`<dimension ref="` + Ref(minC, minR) + `"/>`)
		default:
			b.WriteString(`<dimension ref="` + Ref(minC, minR) + ":" + Ref(maxC, maxR) + `"/>`)
		}
	}
	if len(rows) == 0 {
		b.WriteString("<sheetData/>")
	} else {
		b.WriteString("<sheetData>")
		for _, rw := range rows {
			fmt.Fprintf(&b, `<row r="%d">`, rw.n+1)
			for _, c := range rw.cells {
				b.WriteString(cellXML(c, sstIndex))
			}
			b.WriteString("</row>")
		}
		b.WriteString("</sheetData>")
	}
	if len(s.Merges) > 0 {
		fmt.Fprintf(&b, `<mergeCells count="%d">`, len(s.Merges))
		for _, m := range s.Merges {
			if _, _, _, _, err := ParseRange(m); err != nil {
				panic("xlsxw: " + err.Error())
			}
			b.WriteString(`<mergeCell ref="` + m + `"/>`)
		}
		b.WriteString("</mergeCells>")
	}
	b.WriteString("</worksheet>")
	return b.String()
}

func cellXML(c Cell, sstIndex func(Cell) int) string {
	f := ""
	if c.Formula != "" {
		f = "<f>" + Esc(c.Formula) + "</f>"
	}
	switch c.Kind {
	case Shared, SharedRich:
		return fmt.Sprintf(`<c r="%s" t="s"><v>%d</v></c>`, c.Ref, sstIndex(c))
	case Inline:
		return `<c r="` + c.Ref + `" t="inlineStr"><is>` + textEl(c.Value) + `</is></c>`
	case InlineRich:
		return `<c r="` + c.Ref + `" t="inlineStr"><is>` + richXML(runsOf(c)) + `</is></c>`
	case FormulaStr:
		if f == "" {
			f = `<f>"x"</f>`
		}
		return `<c r="` + c.Ref + `" t="str">` + f + `<v>` + Esc(c.Value) + `</v></c>`
	case Number:
		t := ""
		if c.ExplicitT {
			t = ` t="n"`
		}
		return `<c r="` + c.Ref + `"` + t + `>` + f + `<v>` + Esc(c.Value) + `</v></c>`
	case Bool:
		v := "0"
		switch c.Value {
		case "TRUE":
			v = "1"
		case "FALSE":
		default:
			panic("xlsxw: Bool value must be TRUE or FALSE")
		}
		return `<c r="` + c.Ref + `" t="b">` + f + `<v>` + v + `</v></c>`
	case Error:
		return `<c r="` + c.Ref + `" t="e">` + f + `<v>` + Esc(c.Value) + `</v></c>`
	case Blank:
		return `<c r="` + c.Ref + `" s="1"/>`
	}
	panic("xlsxw: unknown kind")
}

// SortCells orders cells row-major (the order a spreadsheet application writes).
func SortCells(cells []Cell) {
	sort.SliceStable(cells, func(i, j int) bool {
		ci, ri, _ := ParseRef(cells[i].Ref)
		cj, rj, _ := ParseRef(cells[j].Ref)
		if ri != rj {
			return ri < rj
		}
		return ci < cj
	})
}
